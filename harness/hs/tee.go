package hs

import (
	"net"
	"sync"
)

// teeListener wraps the base listener: every accepted connection records the
// first bytes the peer sends, so that the harness can parse the ClientHello's
// ALPN list itself (independently of what the library reports).
type teeListener struct {
	net.Listener
}

type teeConn struct {
	net.Conn
	mu  sync.Mutex
	buf []byte
}

const teeMax = 1 << 17

func (t *teeListener) Accept() (net.Conn, error) {
	c, err := t.Listener.Accept()
	if err != nil {
		return nil, err
	}
	return &teeConn{Conn: c}, nil
}

func (t *teeConn) Read(p []byte) (int, error) {
	n, err := t.Conn.Read(p)
	if n > 0 {
		t.mu.Lock()
		if len(t.buf) < teeMax {
			t.buf = append(t.buf, p[:n]...)
		}
		t.mu.Unlock()
	}
	return n, err
}

func (t *teeConn) Captured() []byte {
	t.mu.Lock()
	defer t.mu.Unlock()
	return append([]byte(nil), t.buf...)
}

// ParseClientHelloALPN extracts the ALPN protocol list from the raw bytes of a
// TLS connection (handshake records reassembled). ok=false if no ClientHello
// could be parsed.
func ParseClientHelloALPN(raw []byte) (protos []string, ok bool) {
	// reassemble handshake payload from records
	var hs []byte
	for len(raw) >= 5 {
		typ := raw[0]
		l := int(raw[3])<<8 | int(raw[4])
		if typ != 22 || len(raw) < 5+l {
			break
		}
		hs = append(hs, raw[5:5+l]...)
		raw = raw[5+l:]
		if len(hs) >= 4 {
			need := int(hs[1])<<16 | int(hs[2])<<8 | int(hs[3])
			if len(hs) >= 4+need {
				break
			}
		}
	}
	if len(hs) < 4 || hs[0] != 1 {
		return nil, false
	}
	n := int(hs[1])<<16 | int(hs[2])<<8 | int(hs[3])
	if len(hs) < 4+n {
		return nil, false
	}
	b := hs[4 : 4+n]
	// version(2) random(32)
	if len(b) < 35 {
		return nil, false
	}
	b = b[34:]
	sl := int(b[0])
	if len(b) < 1+sl+2 {
		return nil, false
	}
	b = b[1+sl:]
	cl := int(b[0])<<8 | int(b[1])
	if len(b) < 2+cl+1 {
		return nil, false
	}
	b = b[2+cl:]
	ml := int(b[0])
	if len(b) < 1+ml+2 {
		return nil, true
	}
	b = b[1+ml:]
	el := int(b[0])<<8 | int(b[1])
	b = b[2:]
	if len(b) < el {
		return nil, false
	}
	b = b[:el]
	for len(b) >= 4 {
		et := int(b[0])<<8 | int(b[1])
		l := int(b[2])<<8 | int(b[3])
		if len(b) < 4+l {
			return nil, false
		}
		body := b[4 : 4+l]
		b = b[4+l:]
		if et != 16 {
			continue
		}
		if len(body) < 2 {
			return nil, false
		}
		ll := int(body[0])<<8 | int(body[1])
		body = body[2:]
		if len(body) < ll {
			return nil, false
		}
		body = body[:ll]
		for len(body) > 0 {
			pl := int(body[0])
			if len(body) < 1+pl {
				return nil, false
			}
			protos = append(protos, string(body[1:1+pl]))
			body = body[1+pl:]
		}
		return protos, true
	}
	return nil, true
}
