// Package hs runs a real protocol.InterceptingListener on loopback and drives
// it with honest nodes (protocol.Dial) and adversarial crypto/tls clients
// assembled field by field from abstract client records.
package hs

import (
	"sync/atomic"
	"context"
	"crypto"
	"crypto/ed25519"
	"crypto/rand"
	"crypto/tls"
	"crypto/x509"
	"crypto/x509/pkix"
	"encoding/base64"
	"errors"
	"fmt"
	"io"
	"math/big"
	"net"
	"strings"
	"sync"
	"time"

	"github.com/hashicorp/nodeenrollment"
	"github.com/hashicorp/nodeenrollment/protocol"
	"github.com/hashicorp/nodeenrollment/registration"
	"github.com/hashicorp/nodeenrollment/rotation"
	"github.com/hashicorp/nodeenrollment/storage/inmem"
	nodetls "github.com/hashicorp/nodeenrollment/tls"
	"github.com/hashicorp/nodeenrollment/types"
	"google.golang.org/protobuf/proto"
	"google.golang.org/protobuf/types/known/structpb"

	"verifharness/world"
)

// Node is the node-side view of one enrolled identity.
type Node struct {
	Name    string
	Storage nodeenrollment.Storage
	Creds   *types.NodeCredentials // after enrolment (bundles present)
	Fresh   bool                   // issued under the server's current root set
}

type Server struct {
	W        *world.World
	Ln       *protocol.InterceptingListener
	Base     net.Listener
	Addr     string
	Nodes    map[string]*Node
	BaseTLS  *tls.Config
	BaseCert *x509.Certificate
	Opts     []nodeenrollment.Option
	Foreign  *ForeignCA
	mu       sync.Mutex
	acceptCh chan AcceptResult
	closing  bool
	fatals   int
}

type ForeignCA struct {
	Cert *x509.Certificate
	Der  []byte
	Priv ed25519.PrivateKey
}

func newForeignCA() *ForeignCA {
	pub, priv, _ := ed25519.GenerateKey(rand.Reader)
	tpl := &x509.Certificate{
		SerialNumber:          big.NewInt(7),
		Subject:               pkix.Name{CommonName: "foreign-root"},
		KeyUsage:              x509.KeyUsageCertSign | x509.KeyUsageDigitalSignature,
		NotBefore:             time.Now().Add(-time.Hour),
		NotAfter:              time.Now().Add(24 * time.Hour),
		BasicConstraintsValid: true,
		IsCA:                  true,
	}
	der, err := x509.CreateCertificate(rand.Reader, tpl, tpl, pub, priv)
	if err != nil {
		panic(err)
	}
	c, _ := x509.ParseCertificate(der)
	return &ForeignCA{Cert: c, Der: der, Priv: priv}
}

// Issue creates a leaf for pub (SubjectKeyId = its PKIX form, as the library does).
func (f *ForeignCA) Issue(pub ed25519.PublicKey, pkixb []byte, keyId string, eku x509.ExtKeyUsage, dns ...string) []byte {
	tpl := &x509.Certificate{
		SerialNumber:   big.NewInt(time.Now().UnixNano()),
		Subject:        pkix.Name{CommonName: keyId},
		DNSNames:       append([]string{keyId}, dns...),
		SubjectKeyId:   pkixb,
		AuthorityKeyId: f.Cert.SubjectKeyId,
		ExtKeyUsage:    []x509.ExtKeyUsage{eku},
		KeyUsage:       x509.KeyUsageDigitalSignature | x509.KeyUsageKeyEncipherment | x509.KeyUsageKeyAgreement,
		NotBefore:      time.Now().Add(-time.Hour),
		NotAfter:       time.Now().Add(24 * time.Hour),
	}
	der, err := x509.CreateCertificate(rand.Reader, tpl, f.Cert, pub, f.Priv)
	if err != nil {
		panic(err)
	}
	return der
}

type ServerConfig struct {
	Seed           int64
	StorageWrapper bool
	NodeIdLoader   bool
	NoBaseTLS      bool
	Lifetime       time.Duration // root lifetime (0 = default)
	RootOpts       []nodeenrollment.Option
	ExtraOpts      []nodeenrollment.Option
	OptsSpare      int                    // spare capacity of the options slice handed to the listener (C15)
	Inner          nodeenrollment.Storage // server storage back end (nil: in-memory)
	// hooks around the listener's two callbacks (used as scheduler gates)
	FetchBefore  func(*types.FetchNodeCredentialsRequest)
	GenBefore    func(*types.GenerateServerCertificatesRequest)
	GenAfter     func(*types.GenerateServerCertificatesRequest)
	NoAcceptLoop bool // the caller (e.g. a SplitListener) accepts from the intercepting listener itself
	// CustomCloseErr: once closed, the base listener's Accept fails with an error of its own instead of net.ErrClosed
	CustomCloseErr bool
	// BareBaseTLS: the base TLS configuration lists no application protocols (and has no GetConfigForClient)
	BareBaseTLS bool
	// ListenerStore, when set, is the storage the LISTENER is given (another handle on the same data as the world's)
	ListenerStore nodeenrollment.Storage
	Unix         string
}

// sessionListener reports its closure with an error of its own (as a multiplexed session used as a listener does)
type sessionListener struct {
	net.Listener
	closed atomic.Bool
}

var errSessionShutdown = errors.New("session shutdown")

func (l *sessionListener) Accept() (net.Conn, error) {
	c, err := l.Listener.Accept()
	if err != nil && l.closed.Load() {
		return nil, errSessionShutdown
	}
	return c, err
}
func (l *sessionListener) Close() error { l.closed.Store(true); return l.Listener.Close() }

func selfSigned(pub ed25519.PublicKey, priv ed25519.PrivateKey, ski []byte) ([]byte, *x509.Certificate) {
	tpl := &x509.Certificate{
		SerialNumber:          big.NewInt(time.Now().UnixNano()),
		Subject:               pkix.Name{CommonName: "self"},
		SubjectKeyId:          ski,
		AuthorityKeyId:        ski,
		ExtKeyUsage:           []x509.ExtKeyUsage{x509.ExtKeyUsageClientAuth, x509.ExtKeyUsageServerAuth},
		KeyUsage:              x509.KeyUsageDigitalSignature | x509.KeyUsageCertSign,
		NotBefore:             time.Now().Add(-time.Minute),
		NotAfter:              time.Now().Add(time.Hour),
		BasicConstraintsValid: true,
		IsCA:                  true,
		IPAddresses:           []net.IP{net.ParseIP("127.0.0.1")},
		DNSNames:              []string{"localhost"},
	}
	der, err := x509.CreateCertificate(rand.Reader, tpl, tpl, pub, priv)
	if err != nil {
		panic(err)
	}
	c, _ := x509.ParseCertificate(der)
	return der, c
}

func NewServer(cfg ServerConfig) (*Server, error) {
	w, err := world.New(world.Config{Seed: cfg.Seed, StorageWrapper: cfg.StorageWrapper, NodeIdLoader: cfg.NodeIdLoader, Inner: cfg.Inner})
	if err != nil {
		return nil, err
	}
	var ropts []nodeenrollment.Option
	if cfg.Lifetime != 0 {
		ropts = append(ropts, nodeenrollment.WithCertificateLifetime(cfg.Lifetime))
	}
	ropts = append(ropts, cfg.RootOpts...)
	if _, err := w.InitRoots(ropts...); err != nil {
		return nil, err
	}
	s := &Server{W: w, Nodes: map[string]*Node{}, Foreign: newForeignCA()}
	if cfg.Unix != "" {
		s.Base, err = net.Listen("unix", cfg.Unix)
		s.Addr = cfg.Unix
	} else {
		s.Base, err = net.Listen("tcp4", "127.0.0.1:0")
		if err == nil {
			s.Addr = s.Base.Addr().String()
		}
	}
	if err != nil {
		return nil, err
	}
	s.Base = &teeListener{Listener: s.Base}
	if cfg.CustomCloseErr {
		s.Base = &sessionListener{Listener: s.Base}
	}
	if !cfg.NoBaseTLS {
		pub, priv, _ := ed25519.GenerateKey(rand.Reader)
		der, c := selfSigned(pub, priv, nil)
		s.BaseCert = c
		s.BaseTLS = &tls.Config{
			Certificates: []tls.Certificate{{Certificate: [][]byte{der}, PrivateKey: priv, Leaf: c}},
			NextProtos:   []string{"h2", "app-proto", "__AUTH__", "__UNAUTH__", "other", "sp1", "sp2", "zz"},
			MinVersion:   tls.VersionTLS12,
		}
		if cfg.BareBaseTLS {
			s.BaseTLS.NextProtos = nil
		}
	}
	opts := w.StorageOpts(cfg.ExtraOpts...)
	if cfg.OptsSpare > 0 {
		grown := make([]nodeenrollment.Option, len(opts), len(opts)+cfg.OptsSpare)
		copy(grown, opts)
		opts = grown
	} else {
		exact := make([]nodeenrollment.Option, len(opts))
		copy(exact, opts)
		opts = exact
	}
	s.Opts = opts
	var lstore nodeenrollment.Storage = w.Store
	if cfg.ListenerStore != nil {
		lstore = cfg.ListenerStore
	}
	lc := &protocol.InterceptingListenerConfiguration{
		Context:              w.Ctx,
		Storage:              lstore,
		BaseListener:         s.Base,
		BaseTlsConfiguration: s.BaseTLS,
		Options:              opts,
	}
	if cfg.FetchBefore != nil {
		lc.FetchCredsFunc = func(ctx context.Context, st nodeenrollment.Storage, req *types.FetchNodeCredentialsRequest, opt ...nodeenrollment.Option) (*types.FetchNodeCredentialsResponse, error) {
			cfg.FetchBefore(req)
			return registration.FetchNodeCredentials(ctx, st, req, opt...)
		}
	}
	if cfg.GenBefore != nil || cfg.GenAfter != nil {
		lc.GenerateServerCertificatesFunc = func(ctx context.Context, st nodeenrollment.Storage, req *types.GenerateServerCertificatesRequest, opt ...nodeenrollment.Option) (*types.GenerateServerCertificatesResponse, error) {
			if cfg.GenBefore != nil {
				cfg.GenBefore(req)
			}
			resp, err := nodetls.GenerateServerCertificates(ctx, st, req, opt...)
			if cfg.GenAfter != nil {
				cfg.GenAfter(req)
			}
			return resp, err
		}
	}
	s.Ln, err = protocol.NewInterceptingListener(lc)
	if err != nil {
		return nil, err
	}
	s.acceptCh = make(chan AcceptResult, 64)
	if !cfg.NoAcceptLoop {
		go s.acceptLoop()
	}
	return s, nil
}

func (s *Server) Close() { s.closing = true; _ = s.Ln.Close() }

// NewNode creates node-side credentials (not yet authorised) and registers the
// generated certificate key under the abstract name.
func (s *Server) NewNode(name string, opt ...nodeenrollment.Option) (*Node, error) {
	st, err := inmem.New(s.W.Ctx)
	if err != nil {
		return nil, err
	}
	nc, err := types.NewNodeCredentials(s.W.Ctx, st, opt...)
	if err != nil {
		return nil, err
	}
	privRaw, err := x509.ParsePKCS8PrivateKey(nc.CertificatePrivateKeyPkcs8)
	if err != nil {
		return nil, err
	}
	priv := privRaw.(ed25519.PrivateKey)
	pub := priv.Public().(ed25519.PublicKey)
	_, keyId, _ := nodeenrollment.SubjectKeyInfoAndKeyIdFromPubKey(pub)
	s.W.CertKeys[name] = &world.CertKey{Name: name, Pub: pub, Priv: priv, Pkix: nc.CertificatePublicKeyPkix, Pkcs8: nc.CertificatePrivateKeyPkcs8, KeyId: keyId}
	n := &Node{Name: name, Storage: st, Creds: nc}
	s.Nodes[name] = n
	return n, nil
}

// Enroll creates (or reuses) node `name`, authorises its request on the server
// (operator flow) and completes the fetch without the network.
func (s *Server) Enroll(name string, state *structpb.Struct) (*Node, error) {
	n, ok := s.Nodes[name]
	var err error
	if !ok || len(n.Creds.CertificateBundles) > 0 {
		if n, err = s.NewNode(name); err != nil {
			return nil, err
		}
	}
	req, err := n.Creds.CreateFetchNodeCredentialsRequest(s.W.Ctx)
	if err != nil {
		return nil, err
	}
	var aopts []nodeenrollment.Option
	if state != nil {
		aopts = append(aopts, nodeenrollment.WithState(state))
	}
	if _, err := registration.AuthorizeNode(s.W.Ctx, s.W.Store, req, s.W.StorageOpts(aopts...)...); err != nil {
		return nil, err
	}
	resp, err := registration.FetchNodeCredentials(s.W.Ctx, s.W.Store, req, s.W.StorageOpts()...)
	if err != nil {
		return nil, err
	}
	if _, err := n.Creds.HandleFetchNodeCredentialsResponse(s.W.Ctx, n.Storage, resp); err != nil {
		return nil, err
	}
	n.Fresh = true
	return n, nil
}

func (s *Server) RemoveRecord(name string) error {
	ck := s.W.EnsureCertKey(name)
	return s.W.Store.Remove(s.W.Ctx, &types.NodeInformation{Id: ck.KeyId})
}

func (s *Server) RecordPresent(name string) bool {
	ck, ok := s.W.CertKeys[name]
	if !ok {
		return false
	}
	ni := &types.NodeInformation{Id: ck.KeyId}
	return s.W.Inner.Load(s.W.Ctx, ni) == nil
}

// ReinitRoots replaces both roots; every credential issued before is stale.
func (s *Server) ReinitRoots() error {
	_, err := rotation.RotateRootCertificates(s.W.Ctx, s.W.Store, s.W.StorageOpts(nodeenrollment.WithReinitializeRoots(true))...)
	for _, n := range s.Nodes {
		n.Fresh = false
	}
	return err
}

// ---------------------------------------------------------------- accept side

type AcceptResult struct {
	Kind       string // auth | base | temperr | fatal | panic | timeout
	Negotiated string
	Protos     []string
	ProtosNil  bool
	State      *structpb.Struct
	Err        string
	Conn       net.Conn
	CopyOK     bool
	Offered    []string // ALPN list parsed by the harness from the raw ClientHello
	OfferedOK  bool
	PeerKey    []byte // SubjectKeyId of the client certificate (the node's certificate public key)
}

// acceptLoop keeps exactly one Accept pending for the server's lifetime and
// publishes every outcome; a panic inside Accept is recovered, recorded, and the
// loop goes on (that the listener keeps accepting is part of C14).
func (s *Server) acceptLoop() {
	for {
		res, stop := s.acceptOnce()
		if stop {
			close(s.acceptCh)
			return
		}
		s.acceptCh <- res
	}
}

func (s *Server) acceptOnce() (res AcceptResult, stop bool) {
	defer func() {
		if p := recover(); p != nil {
			res = AcceptResult{Kind: "panic", Err: fmt.Sprint(p)}
		}
	}()
	c, err := s.Ln.Accept()
	switch {
	case err != nil:
		if te, ok := err.(interface{ Temporary() bool }); ok && te.Temporary() {
			return AcceptResult{Kind: "temperr", Err: err.Error()}, false
		}
		if errors.Is(err, net.ErrClosed) && s.closing {
			return AcceptResult{}, true
		}
		s.fatals++
		if s.fatals > 3 {
			return AcceptResult{Kind: "fatal", Err: err.Error()}, true
		}
		return AcceptResult{Kind: "fatal", Err: err.Error()}, false
	default:
		res = AcceptResult{Kind: "base", Conn: c}
		if pc, ok := c.(*protocol.Conn); ok {
			res.Negotiated = pc.ConnectionState().NegotiatedProtocol
			res.Protos = pc.ClientNextProtos()
			res.ProtosNil = res.Protos == nil
			res.State = pc.ClientState()
			if pcs := pc.ConnectionState().PeerCertificates; len(pcs) > 0 {
				res.PeerKey = pcs[0].SubjectKeyId
			}
			if tc, ok := pc.Conn.NetConn().(*teeConn); ok {
				res.Offered, res.OfferedOK = ParseClientHelloALPN(tc.Captured())
			}
			// the returned list must be a copy: scribble on it and read again
			if len(res.Protos) > 0 {
				cp := pc.ClientNextProtos()
				cp[0] = "scribbled"
				res.CopyOK = pc.ClientNextProtos()[0] != "scribbled"
			} else {
				res.CopyOK = true
			}
			if strings.HasPrefix(res.Negotiated, nodeenrollment.AuthenticateNodeNextProtoV1Prefix) {
				res.Kind = "auth"
			}
			if strings.HasPrefix(res.Negotiated, nodeenrollment.FetchNodeCredsNextProtoV1Prefix) {
				res.Kind = "fetchconn"
			}
		} else {
			res.Kind = "othertype"
		}
		return res, false
	}
}

// AcceptOnce runs a single Accept (for callers that run their own, possibly concurrent, accept goroutines).
func (s *Server) AcceptOnce() (AcceptResult, bool) { return s.acceptOnce() }

// AcceptOne waits for the next Accept outcome.
func (s *Server) AcceptOne(timeout time.Duration) AcceptResult {
	select {
	case r, ok := <-s.acceptCh:
		if !ok {
			return AcceptResult{Kind: "fatal", Err: "accept loop ended"}
		}
		return r
	case <-time.After(timeout):
		return AcceptResult{Kind: "timeout"}
	}
}

// ---------------------------------------------------------------- adversarial client

type badSigner struct {
	pub  ed25519.PublicKey
	real ed25519.PrivateKey
}

func (b badSigner) Public() crypto.PublicKey { return b.pub }
func (b badSigner) Sign(r io.Reader, d []byte, o crypto.SignerOpts) ([]byte, error) {
	return b.real.Sign(r, d, o)
}

// Client is the abstract adversarial client of Handshake.tla.
type Client struct {
	Kind   string   // auth | fetch | base | raw
	K      string   // key named in the request
	Ck     string   // key whose certificate is presented
	Chain  string   // b0 | b1 | foreign | self | none
	Priv   bool     // holds Ck's private key
	Nsig   string   // signer of the nonce: key name | none | kx
	St     string   // none | ok (signed by Nsig) | forged (signed by kx) | unsigned
	Skip   bool     // peer-set skip_verification
	Nid    string   // node id hint or none
	Pref   string   // cur | next | garbage | none
	Cn     bool     // peer-set common_name
	Extras []string // extra ALPN names
	XPos   string   // where the extra names go: "" / mid (chunks, extras, preference) | afterPref | before | split
	ReqMut string   // none | flip:<i> (bit flip of the marshalled request)
	State  *structpb.Struct
}

// BuildAuthProtos assembles the ALPN list of an authentication attempt.
func (s *Server) BuildAuthProtos(c Client) ([]string, *types.GenerateServerCertificatesRequest, error) {
	w := s.W
	nonce := make([]byte, nodeenrollment.NonceSize)
	rand.Read(nonce)
	req := &types.GenerateServerCertificatesRequest{
		CertificatePublicKeyPkix: w.EnsureCertKey(c.K).Pkix,
		Nonce:                    nonce,
		SkipVerification:         c.Skip,
	}
	if c.Nsig != world.None && c.Nsig != "" {
		req.NonceSignature = ed25519.Sign(w.EnsureCertKey(c.Nsig).Priv, nonce)
	}
	if c.Nid != world.None && c.Nid != "" {
		req.NodeId = c.Nid
	}
	if c.Cn {
		req.CommonName = "attacker-chosen-name"
	}
	if c.St != world.None && c.St != "" {
		st := c.State
		if st == nil {
			st = w.States["s1"]
		}
		sb, _ := proto.Marshal(st)
		req.ClientState = sb
		switch c.St {
		case "ok":
			if c.Nsig != world.None {
				req.ClientStateSignature = ed25519.Sign(w.EnsureCertKey(c.Nsig).Priv, sb)
			}
		case "forged":
			req.ClientStateSignature = ed25519.Sign(w.EnsureCertKey("kx").Priv, sb)
		}
	}
	b, err := proto.Marshal(req)
	if err != nil {
		return nil, nil, err
	}
	if strings.HasPrefix(c.ReqMut, "flip:") {
		var i int
		fmt.Sscanf(c.ReqMut, "flip:%d", &i)
		b = append([]byte(nil), b...)
		i %= len(b) * 8
		b[i/8] ^= 1 << (i % 8)
	}
	protos, err := nodetls.BreakIntoNextProtos(nodeenrollment.AuthenticateNodeNextProtoV1Prefix, base64.RawStdEncoding.EncodeToString(b))
	if err != nil {
		return nil, nil, err
	}
	protos = append(protos, c.Extras...)
	switch c.Pref {
	case "cur", "next":
		roots, err := types.LoadRootCertificates(w.Ctx, w.Inner, w.StorageOpts()...)
		if err == nil {
			r := roots.Current
			if c.Pref == "next" {
				r = roots.Next
			}
			id, _ := nodeenrollment.KeyIdFromPkix(r.PublicKeyPkix)
			protos = append(protos, nodeenrollment.CertificatePreferenceV1Prefix+id)
		}
	case "garbage":
		protos = append(protos, nodeenrollment.CertificatePreferenceV1Prefix+"no-such-root")
	}
	// other legitimate orders of the same entries (a client is free to order its ALPN list)
	if len(c.Extras) > 0 && c.XPos != "" && c.XPos != "mid" {
		var lib, pref []string
		for _, p := range protos {
			switch {
			case strings.HasPrefix(p, nodeenrollment.CertificatePreferenceV1Prefix):
				pref = append(pref, p)
			case strings.HasPrefix(p, nodeenrollment.AuthenticateNodeNextProtoV1Prefix):
				lib = append(lib, p)
			}
		}
		switch c.XPos {
		case "afterPref":
			protos = append(append(append([]string{}, lib...), pref...), c.Extras...)
		case "before":
			protos = append(append(append([]string{}, c.Extras...), lib...), pref...)
		case "split":
			protos = append(append(append(append([]string{}, c.Extras[:1]...), lib...), pref...), c.Extras[1:]...)
		}
	}
	return protos, req, nil
}

// ClientCert returns the certificate the adversarial client presents.
func (s *Server) ClientCert(c Client) (*tls.Certificate, error) {
	w := s.W
	ck := w.EnsureCertKey(c.Ck)
	var signer crypto.Signer = ck.Priv
	if !c.Priv {
		_, other, _ := ed25519.GenerateKey(rand.Reader)
		signer = badSigner{pub: ck.Pub, real: other}
	}
	switch c.Chain {
	case "b0", "b1":
		n, ok := s.Nodes[c.Ck]
		if !ok || len(n.Creds.CertificateBundles) != 2 {
			// never enrolled: fall back to a self-signed certificate
			der, _ := selfSigned(ck.Pub, ck.Priv, ck.Pkix)
			return &tls.Certificate{Certificate: [][]byte{der}, PrivateKey: signer}, nil
		}
		i := 0
		if c.Chain == "b1" {
			i = 1
		}
		b := n.Creds.CertificateBundles[i]
		return &tls.Certificate{Certificate: [][]byte{b.CertificateDer, b.CaCertificateDer}, PrivateKey: signer}, nil
	case "foreign":
		der := s.Foreign.Issue(ck.Pub, ck.Pkix, ck.KeyId, x509.ExtKeyUsageClientAuth)
		return &tls.Certificate{Certificate: [][]byte{der, s.Foreign.Der}, PrivateKey: signer}, nil
	case "self":
		der, _ := selfSigned(ck.Pub, ck.Priv, ck.Pkix)
		return &tls.Certificate{Certificate: [][]byte{der}, PrivateKey: signer}, nil
	case "leadOwn":
		// a throwaway self-signed end-entity certificate for a key the client holds, followed by ck's genuine chain
		tpub, tpriv, _ := ed25519.GenerateKey(rand.Reader)
		tpkix, _ := x509.MarshalPKIXPublicKey(tpub)
		tpl := &x509.Certificate{SerialNumber: big.NewInt(time.Now().UnixNano()), Subject: pkix.Name{CommonName: "throwaway"}, SubjectKeyId: tpkix,
			DNSNames: []string{nodeenrollment.CommonDnsName}, ExtKeyUsage: []x509.ExtKeyUsage{x509.ExtKeyUsageClientAuth}, KeyUsage: x509.KeyUsageDigitalSignature,
			NotBefore: time.Now().Add(-time.Minute), NotAfter: time.Now().Add(time.Hour), BasicConstraintsValid: true}
		der, err := x509.CreateCertificate(rand.Reader, tpl, tpl, tpub, tpriv)
		if err != nil {
			return nil, err
		}
		list := [][]byte{der}
		if n, ok := s.Nodes[c.Ck]; ok && len(n.Creds.CertificateBundles) == 2 {
			b := n.Creds.CertificateBundles[0]
			list = append(list, b.CertificateDer, b.CaCertificateDer)
		}
		return &tls.Certificate{Certificate: list, PrivateKey: tpriv}, nil
	case "selfNoSan":
		// self-signed with a common name only: no DNS or IP subject alternative names at all
		tpl := &x509.Certificate{SerialNumber: big.NewInt(time.Now().UnixNano()), Subject: pkix.Name{CommonName: "no-san"}, SubjectKeyId: ck.Pkix,
			ExtKeyUsage: []x509.ExtKeyUsage{x509.ExtKeyUsageClientAuth}, KeyUsage: x509.KeyUsageDigitalSignature,
			NotBefore: time.Now().Add(-time.Minute), NotAfter: time.Now().Add(time.Hour)}
		der, err := x509.CreateCertificate(rand.Reader, tpl, tpl, ck.Pub, ck.Priv)
		if err != nil {
			return nil, err
		}
		return &tls.Certificate{Certificate: [][]byte{der}, PrivateKey: signer}, nil
	}
	return &tls.Certificate{}, nil
}

// RawDial performs a TLS client handshake with the given ALPN list and client
// certificate against the listener; it returns the client-side error text.
func (s *Server) RawDial(ctx context.Context, protos []string, cert *tls.Certificate, min uint16) (string, *tls.ConnectionState) {
	network := "tcp"
	if strings.HasPrefix(s.Addr, "/") {
		network = "unix"
	}
	d := net.Dialer{Timeout: 3 * time.Second}
	raw, err := d.DialContext(ctx, network, s.Addr)
	if err != nil {
		return "dial: " + err.Error(), nil
	}
	defer raw.Close()
	_ = raw.SetDeadline(time.Now().Add(5 * time.Second))
	conf := &tls.Config{
		InsecureSkipVerify: true,
		NextProtos:         protos,
		MinVersion:         min,
		GetClientCertificate: func(*tls.CertificateRequestInfo) (*tls.Certificate, error) {
			if cert == nil {
				return &tls.Certificate{}, nil
			}
			return cert, nil
		},
	}
	tc := tls.Client(raw, conf)
	if err := tc.HandshakeContext(ctx); err != nil {
		return err.Error(), nil
	}
	cs := tc.ConnectionState()
	// in TLS 1.3 the client finishes first: read once to learn the server's verdict
	_ = tc.SetReadDeadline(time.Now().Add(300 * time.Millisecond))
	buf := make([]byte, 1)
	_, rerr := tc.Read(buf)
	if rerr != nil && !errors.Is(rerr, io.EOF) {
		if ne, ok := rerr.(net.Error); ok && ne.Timeout() {
			return "", &cs
		}
		return "post-handshake: " + rerr.Error(), &cs
	}
	return "", &cs
}

// Connect runs one adversarial client against one Accept.
func (s *Server) Connect(c Client) (AcceptResult, string) {
	var protos []string
	var cert *tls.Certificate
	var err error
	switch c.Kind {
	case "auth", "mixedFA", "mixedAF":
		protos, _, err = s.BuildAuthProtos(c)
		if err != nil {
			return AcceptResult{Kind: "harness-error", Err: err.Error()}, ""
		}
		if c.Kind != "auth" {
			// a self-consistent but unauthorised fetch request in the same ClientHello
			info, ierr := s.W.BuildInfo(world.FetchSpec{K: "kx", E: "e1", Nonce: "n1"})
			if ierr != nil {
				return AcceptResult{Kind: "harness-error", Err: ierr.Error()}, ""
			}
			freq, _ := s.W.SignInfo(info, "kx")
			fb, _ := proto.Marshal(freq)
			fp, _ := nodetls.BreakIntoNextProtos(nodeenrollment.FetchNodeCredsNextProtoV1Prefix, base64.RawStdEncoding.EncodeToString(fb))
			if c.Kind == "mixedFA" {
				protos = append(append([]string{}, fp...), protos...)
			} else {
				protos = append(protos, fp...)
			}
		}
		cert, err = s.ClientCert(c)
	case "base":
		protos = c.Extras
	}
	if err != nil {
		return AcceptResult{Kind: "harness-error", Err: err.Error()}, ""
	}
	return s.Exchange(protos, cert)
}

// Exchange runs a raw client with the given ALPN list concurrently with one Accept.
func (s *Server) Exchange(protos []string, cert *tls.Certificate) (AcceptResult, string) {
	ctx, cancel := context.WithTimeout(context.Background(), 8*time.Second)
	defer cancel()
	var cerr string
	done := make(chan struct{})
	go func() {
		defer close(done)
		cerr, _ = s.RawDial(ctx, protos, cert, tls.VersionTLS12)
	}()
	res := s.AcceptOne(8 * time.Second)
	if res.Conn != nil {
		_ = res.Conn.Close()
	}
	<-done
	return res, cerr
}

// HonestDial runs protocol.Dial for node `name` concurrently with Accepts until
// the dial returns (a first-time dial needs two accepts: fetch, then auth).
func (s *Server) HonestDial(name string, opt ...nodeenrollment.Option) ([]AcceptResult, net.Conn, error) {
	n, ok := s.Nodes[name]
	if !ok {
		return nil, nil, fmt.Errorf("unknown node %s", name)
	}
	ctx, cancel := context.WithTimeout(context.Background(), 10*time.Second)
	defer cancel()
	type dr struct {
		c   net.Conn
		err error
	}
	ch := make(chan dr, 1)
	go func() {
		c, err := protocol.Dial(ctx, n.Storage, s.Addr, opt...)
		ch <- dr{c, err}
	}()
	var results []AcceptResult
	for {
		select {
		case d := <-ch:
			// the server side of the last connection may finish slightly after the client
			for i := 0; i < 8; i++ { // bounded: once the accept loop has ended AcceptOne answers at once
				r := s.AcceptOne(200 * time.Millisecond)
				if r.Kind == "timeout" {
					break
				}
				results = append(results, r)
			}
			if d.err == nil {
				if creds, err := types.LoadNodeCredentials(s.W.Ctx, n.Storage, nodeenrollment.CurrentId, opt...); err == nil {
					n.Creds = creds
				}
			}
			return results, d.c, d.err
		case r, ok := <-s.acceptCh:
			if !ok {
				d := <-ch
				return results, d.c, d.err
			}
			results = append(results, r)
		}
	}
}

func (s *Server) poke() {
	network := "tcp"
	if strings.HasPrefix(s.Addr, "/") {
		network = "unix"
	}
	c, err := net.DialTimeout(network, s.Addr, time.Second)
	if err == nil {
		c.Write([]byte("x"))
		c.Close()
	}
}
