package hs

import (
	"context"
	"crypto/ed25519"
	"crypto/rand"
	"crypto/tls"
	"crypto/x509"
	"crypto/x509/pkix"
	"encoding/base64"
	"fmt"
	"math/big"
	"net"
	"time"

	"github.com/hashicorp/nodeenrollment"
	"github.com/hashicorp/nodeenrollment/protocol"
	"github.com/hashicorp/nodeenrollment/registration"
	"github.com/hashicorp/nodeenrollment/rotation"
	"github.com/hashicorp/nodeenrollment/storage/inmem"
	nodetls "github.com/hashicorp/nodeenrollment/tls"
	"github.com/hashicorp/nodeenrollment/types"
	"google.golang.org/protobuf/proto"
)

// RogueDial starts a one-shot rogue TLS server of the given kind and lets the
// node dial it with protocol.Dial; it returns whether a connection resulted.
func (s *Server) RogueDial(nodeName, kind string, opt ...nodeenrollment.Option) (conn bool, errText string) {
	n, ok := s.Nodes[nodeName]
	if !ok {
		return false, "unknown node"
	}
	ln, err := net.Listen("tcp4", "127.0.0.1:0")
	if err != nil {
		return false, err.Error()
	}
	defer ln.Close()
	w := s.W
	var otherCa *x509.Certificate
	var otherKey ed25519.PrivateKey
	if kind == "otherDeployment" {
		// an unrelated deployment (own roots, own node) lives in the same process; its node's credentials have been turned
		// into client TLS configurations before this node dials
		bctx := context.Background()
		bSrv, _ := inmem.New(bctx)
		bNode, _ := inmem.New(bctx)
		broots, err := rotation.RotateRootCertificates(bctx, bSrv)
		if err != nil {
			return false, "other deployment: " + err.Error()
		}
		bcreds, err := types.NewNodeCredentials(bctx, bNode)
		if err != nil {
			return false, "other deployment: " + err.Error()
		}
		breq, _ := bcreds.CreateFetchNodeCredentialsRequest(bctx)
		if _, err := registration.AuthorizeNode(bctx, bSrv, breq); err != nil {
			return false, "other deployment: " + err.Error()
		}
		bresp, err := registration.FetchNodeCredentials(bctx, bSrv, breq)
		if err != nil {
			return false, "other deployment: " + err.Error()
		}
		if bcreds, err = bcreds.HandleFetchNodeCredentialsResponse(bctx, bNode, bresp); err != nil {
			return false, "other deployment: " + err.Error()
		}
		if _, err := nodetls.ClientConfigs(bctx, bcreds); err != nil {
			return false, "other deployment: " + err.Error()
		}
		ca, signer, err := broots.Current.SigningParams(bctx)
		if err != nil {
			return false, "other deployment: " + err.Error()
		}
		otherCa, otherKey = ca, signer.(ed25519.PrivateKey)
	}
	conf := &tls.Config{
		MinVersion: tls.VersionTLS12,
		ClientAuth: tls.NoClientCert, // a rogue has no reason to ask for the node's certificate
		GetConfigForClient: func(hello *tls.ClientHelloInfo) (*tls.Config, error) {
			var nonce []byte
			if str, err := nodetls.CombineFromNextProtos(nodeenrollment.AuthenticateNodeNextProtoV1Prefix, hello.SupportedProtos); err == nil {
				if b, err := base64.RawStdEncoding.DecodeString(str); err == nil {
					req := new(types.GenerateServerCertificatesRequest)
					if proto.Unmarshal(b, req) == nil {
						nonce = req.Nonce
					}
				}
			}
			nonceName := base64.RawStdEncoding.EncodeToString(nonce)
			pub, priv, _ := ed25519.GenerateKey(rand.Reader)
			var chain [][]byte
			var key any = priv
			mint := func(caCert *x509.Certificate, caKey ed25519.PrivateKey, eku x509.ExtKeyUsage, dns []string) []byte {
				tpl := &x509.Certificate{SerialNumber: big.NewInt(time.Now().UnixNano()), Subject: pkix.Name{CommonName: "rogue"}, DNSNames: dns,
					ExtKeyUsage: []x509.ExtKeyUsage{eku}, KeyUsage: x509.KeyUsageDigitalSignature, NotBefore: time.Now().Add(-time.Minute), NotAfter: time.Now().Add(time.Hour)}
				der, err := x509.CreateCertificate(rand.Reader, tpl, caCert, pub, caKey)
				if err != nil {
					panic(err)
				}
				return der
			}
			roots, rerr := types.LoadRootCertificates(w.Ctx, w.Inner, w.StorageOpts()...)
			switch kind {
			case "foreign", "foreignNoAlpn", "foreignExtraAlpn":
				chain = [][]byte{mint(s.Foreign.Cert, s.Foreign.Priv, x509.ExtKeyUsageServerAuth, []string{nonceName, nodeenrollment.CommonDnsName}), s.Foreign.Der}
			case "otherDeployment":
				chain = [][]byte{mint(otherCa, otherKey, x509.ExtKeyUsageServerAuth, []string{nonceName, nodeenrollment.CommonDnsName}), otherCa.Raw}
			case "selfSigned":
				tpl := &x509.Certificate{SerialNumber: big.NewInt(9), Subject: pkix.Name{CommonName: "rogue-self"}, DNSNames: []string{nonceName}, IsCA: true, BasicConstraintsValid: true,
					ExtKeyUsage: []x509.ExtKeyUsage{x509.ExtKeyUsageServerAuth}, KeyUsage: x509.KeyUsageDigitalSignature | x509.KeyUsageCertSign, NotBefore: time.Now().Add(-time.Minute), NotAfter: time.Now().Add(time.Hour)}
				der, _ := x509.CreateCertificate(rand.Reader, tpl, tpl, pub, priv)
				chain = [][]byte{der}
			case "staleNonce", "noNonce", "staleNonceExtraCert":
				other := make([]byte, nodeenrollment.NonceSize)
				rand.Read(other)
				req := &types.GenerateServerCertificatesRequest{CertificatePublicKeyPkix: n.Creds.CertificatePublicKeyPkix, SkipVerification: true}
				if kind != "noNonce" {
					req.Nonce = other
				}
				resp, err := nodetls.GenerateServerCertificates(w.Ctx, w.Inner, req, w.StorageOpts()...)
				if err != nil {
					return nil, err
				}
				k, _ := x509.ParsePKCS8PrivateKey(resp.CertificatePrivateKeyPkcs8)
				key = k
				chain = [][]byte{resp.CertificateBundles[0].CertificateDer, resp.CertificateBundles[0].CaCertificateDer}
				if kind == "staleNonceExtraCert" {
					// a genuine certificate minted for ANOTHER nonce, followed by a throw-away certificate that carries the
					// fresh nonce (read from the plaintext ClientHello): chain and nonce satisfied by different certificates
					jpub, jpriv, _ := ed25519.GenerateKey(rand.Reader)
					tpl := &x509.Certificate{SerialNumber: big.NewInt(11), Subject: pkix.Name{CommonName: "junk"}, DNSNames: []string{nonceName, nodeenrollment.CommonDnsName},
						ExtKeyUsage: []x509.ExtKeyUsage{x509.ExtKeyUsageServerAuth}, KeyUsage: x509.KeyUsageDigitalSignature, NotBefore: time.Now().Add(-time.Minute), NotAfter: time.Now().Add(time.Hour)}
					junk, _ := x509.CreateCertificate(rand.Reader, tpl, tpl, jpub, jpriv)
					chain = append(chain, junk)
				}
			case "wrongEku", "nextRootNotYetValid":
				if rerr != nil {
					return nil, rerr
				}
				r := roots.Current
				eku := x509.ExtKeyUsageCodeSigning
				if kind == "nextRootNotYetValid" {
					r = roots.Next
					eku = x509.ExtKeyUsageServerAuth
				}
				caCert, signer, err := r.SigningParams(w.Ctx)
				if err != nil {
					return nil, err
				}
				chain = [][]byte{mint(caCert, signer.(ed25519.PrivateKey), eku, []string{nonceName}), caCert.Raw}
			default:
				return nil, fmt.Errorf("unknown rogue kind %s", kind)
			}
			c := &tls.Config{MinVersion: tls.VersionTLS12, ClientAuth: tls.NoClientCert,
				Certificates: []tls.Certificate{{Certificate: chain, PrivateKey: key}}}
			switch kind {
			case "foreignNoAlpn":
			case "foreignExtraAlpn":
				for _, p := range hello.SupportedProtos {
					if !nodeenrollment.ContainsKnownAlpnProto(p) {
						c.NextProtos = []string{p}
						break
					}
				}
			default:
				if len(hello.SupportedProtos) > 0 {
					c.NextProtos = hello.SupportedProtos[:1] // mimic the library: select the authentication protocol
				}
			}
			return c, nil
		},
	}
	go func() {
		for i := 0; i < 4; i++ { // the node tries one connection per client configuration
			raw, err := ln.Accept()
			if err != nil {
				return
			}
			go func(raw net.Conn) {
				defer raw.Close()
				_ = raw.SetDeadline(time.Now().Add(3 * time.Second))
				tc := tls.Server(raw, conf)
				if tc.Handshake() == nil {
					buf := make([]byte, 1)
					_, _ = tc.Read(buf)
				}
			}(raw)
		}
	}()
	ctx, cancel := context.WithTimeout(context.Background(), 5*time.Second)
	defer cancel()
	c, err := protocol.Dial(ctx, n.Storage, ln.Addr().String(), opt...)
	if c != nil {
		c.Close()
	}
	if err != nil {
		return c != nil, err.Error()
	}
	return c != nil, ""
}
