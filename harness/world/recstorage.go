package world

import (
	"context"
	"errors"
	"fmt"
	"sync"

	"github.com/hashicorp/nodeenrollment"
	"github.com/hashicorp/nodeenrollment/types"
	"google.golang.org/protobuf/proto"
)

// OpRec is one storage operation observed by RecStorage.
type OpRec struct {
	Seq   int    `json:"seq"`
	Op    string `json:"op"`   // Store | Load | Remove | List | LoadByNodeId
	Type  string `json:"type"` // NodeInformation | NodeCredentials | RootCertificates | ServerLedActivationToken | ?
	Id    string `json:"id"`
	Err   string `json:"err"`   // "" | injected:<kind> | real:<text>
	Bytes []byte `json:"-"`     // marshalled message handed to Store
	Write bool   `json:"write"` // Store or Remove
	// Msg: the message object handed to Store (kept only when RecStorage.Retain is set): a back end may serialise what
	// it was given after Store has returned (write-behind), so the object must stay as it was handed over
	Msg proto.Message `json:"-"`
}

type FaultKind string

const (
	FaultGeneric   FaultKind = "generic"
	FaultNotFound  FaultKind = "notfound"
	FaultCancelled FaultKind = "cancelled"
	// FaultCtxDone: the caller's context is REALLY cancelled when the operation starts (OnCtxDone); the operation is forwarded
	FaultCtxDone FaultKind = "ctxdone"
)

var ErrInjected = errors.New("injected storage fault")

// RecStorage wraps a Storage: it records every operation (and the bytes given
// to Store), can fail exactly one operation (by sequence number), and can park
// an operation on a gate so that a driver decides when it proceeds.
type RecStorage struct {
	mu     sync.Mutex
	inner  nodeenrollment.Storage
	Log    []OpRec
	seq    int
	FailAt int // 1-based op index to fail; 0 = never
	Fail   FaultKind
	// Gate, when set, is called (without the lock held) before the operation
	// is forwarded; it may block.
	Gate func(op OpRec)
	// NidOrder, when set, orders the records returned by LoadByNodeId: it
	// receives the key ids found and returns them in the order to deliver.
	NidOrder func(ids []string) []string
	// NidEmptyOK: an unknown node id is answered with an empty set and no error (as a database-backed
	// store might) instead of ErrNotFound
	OnCtxDone  func() // cancels the context the flows run under (FaultCtxDone)
	NidEmptyOK bool
	// NativeNid: when the inner back end implements NodeIdLoader, use its lookup instead of the harness' scan
	NativeNid bool
	// FailOp/FailType, when FailOp is set: the next operation of that name (and, when FailType is set, on that
	// message type) fails with Fail; one shot
	FailOp   string
	FailType string
	FailId   string // when set, the id of the message must match too
	Retain   bool   // keep the message objects handed to Store (OpRec.Msg)
	nid      bool
}

func NewRecStorage(inner nodeenrollment.Storage, nodeIdLoader bool) *RecStorage {
	return &RecStorage{inner: inner, nid: nodeIdLoader}
}

// AsStorage returns the value to hand to the library: a type that does or does
// not implement NodeIdLoader, as configured.
func (r *RecStorage) AsStorage() nodeenrollment.Storage {
	if r.nid {
		return &nidStorage{r}
	}
	return &plainStorage{r}
}

type plainStorage struct{ r *RecStorage }

func (p *plainStorage) Store(ctx context.Context, m nodeenrollment.MessageWithId) error {
	return p.r.Store(ctx, m)
}
func (p *plainStorage) Load(ctx context.Context, m nodeenrollment.MessageWithId) error {
	return p.r.Load(ctx, m)
}
func (p *plainStorage) Remove(ctx context.Context, m nodeenrollment.MessageWithId) error {
	return p.r.Remove(ctx, m)
}
func (p *plainStorage) List(ctx context.Context, m proto.Message) ([]string, error) {
	return p.r.List(ctx, m)
}

type nidStorage struct{ r *RecStorage }

func (p *nidStorage) Store(ctx context.Context, m nodeenrollment.MessageWithId) error {
	return p.r.Store(ctx, m)
}
func (p *nidStorage) Load(ctx context.Context, m nodeenrollment.MessageWithId) error {
	return p.r.Load(ctx, m)
}
func (p *nidStorage) Remove(ctx context.Context, m nodeenrollment.MessageWithId) error {
	return p.r.Remove(ctx, m)
}
func (p *nidStorage) List(ctx context.Context, m proto.Message) ([]string, error) {
	return p.r.List(ctx, m)
}
func (p *nidStorage) LoadByNodeId(ctx context.Context, m nodeenrollment.MessageWithNodeId) error {
	return p.r.LoadByNodeId(ctx, m)
}

func typeName(m proto.Message) string {
	switch m.(type) {
	case *types.NodeInformation:
		return "NodeInformation"
	case *types.NodeCredentials:
		return "NodeCredentials"
	case *types.RootCertificates:
		return "RootCertificates"
	case *types.ServerLedActivationToken:
		return "ServerLedActivationToken"
	case *types.NodeInformationSet:
		return "NodeInformationSet"
	}
	return "?"
}

func (r *RecStorage) Reset() {
	r.mu.Lock()
	defer r.mu.Unlock()
	r.Log = nil
	r.seq = 0
	r.FailAt = 0
}

// SeqNow returns the number of operations begun so far.
func (r *RecStorage) SeqNow() int {
	r.mu.Lock()
	defer r.mu.Unlock()
	return r.seq
}

// Mark returns the current length of the log.
func (r *RecStorage) Mark() int {
	r.mu.Lock()
	defer r.mu.Unlock()
	return len(r.Log)
}

// Since returns a copy of the operations logged after mark.
func (r *RecStorage) Since(mark int) []OpRec {
	r.mu.Lock()
	defer r.mu.Unlock()
	out := make([]OpRec, len(r.Log)-mark)
	copy(out, r.Log[mark:])
	return out
}

// Writes counts Store/Remove operations that reached storage after mark.
func (r *RecStorage) Writes(mark int) int {
	n := 0
	for _, o := range r.Since(mark) {
		if o.Write {
			n++
		}
	}
	return n
}

func (r *RecStorage) begin(op, typ, id string, write bool, b []byte) (OpRec, error) {
	r.mu.Lock()
	r.seq++
	rec := OpRec{Seq: r.seq, Op: op, Type: typ, Id: id, Write: write, Bytes: b}
	var ferr error
	match := r.FailOp != "" && r.FailOp == op && (r.FailType == "" || r.FailType == typ) && (r.FailId == "" || r.FailId == id)
	if match {
		r.FailOp = ""
	}
	if (r.FailAt != 0 && r.seq == r.FailAt) || match {
		switch r.Fail {
		case FaultCtxDone:
			if r.OnCtxDone != nil {
				r.OnCtxDone()
			}
			rec.Err = "injected:" + string(r.Fail) // logged as the injected event; the operation goes through
			r.mu.Unlock()
			if gate := r.Gate; gate != nil {
				gate(rec)
			}
			return rec, nil
		case FaultNotFound:
			ferr = fmt.Errorf("injected: %w", nodeenrollment.ErrNotFound)
		case FaultCancelled:
			ferr = fmt.Errorf("injected: %w", context.Canceled)
		default:
			ferr = ErrInjected
		}
		rec.Err = "injected:" + string(r.Fail)
	}
	gate := r.Gate
	r.mu.Unlock()
	if gate != nil {
		gate(rec)
	}
	return rec, ferr
}

func (r *RecStorage) end(rec OpRec, err error) {
	if err != nil && rec.Err == "" {
		rec.Err = "real:" + err.Error()
	}
	r.mu.Lock()
	r.Log = append(r.Log, rec)
	r.mu.Unlock()
}

func (r *RecStorage) Store(ctx context.Context, m nodeenrollment.MessageWithId) error {
	var b []byte
	id := ""
	if !nodeenrollment.IsNil(m) {
		b, _ = proto.Marshal(m)
		id = m.GetId()
	}
	rec, ferr := r.begin("Store", typeName(m), id, true, b)
	if r.Retain && !nodeenrollment.IsNil(m) {
		rec.Msg = m
	}
	if ferr != nil {
		r.end(rec, ferr)
		return ferr
	}
	err := r.inner.Store(ctx, m)
	r.end(rec, err)
	return err
}

func (r *RecStorage) Load(ctx context.Context, m nodeenrollment.MessageWithId) error {
	id := ""
	if !nodeenrollment.IsNil(m) {
		id = m.GetId()
	}
	rec, ferr := r.begin("Load", typeName(m), id, false, nil)
	if ferr != nil {
		r.end(rec, ferr)
		return ferr
	}
	err := r.inner.Load(ctx, m)
	r.end(rec, err)
	return err
}

func (r *RecStorage) Remove(ctx context.Context, m nodeenrollment.MessageWithId) error {
	id := ""
	if !nodeenrollment.IsNil(m) {
		id = m.GetId()
	}
	rec, ferr := r.begin("Remove", typeName(m), id, true, nil)
	if ferr != nil {
		r.end(rec, ferr)
		return ferr
	}
	err := r.inner.Remove(ctx, m)
	r.end(rec, err)
	return err
}

func (r *RecStorage) List(ctx context.Context, m proto.Message) ([]string, error) {
	rec, ferr := r.begin("List", typeName(m), "", false, nil)
	if ferr != nil {
		r.end(rec, ferr)
		return nil, ferr
	}
	out, err := r.inner.List(ctx, m)
	r.end(rec, err)
	return out, err
}

// LoadByNodeId scans node records of the inner storage and returns those with
// the given node id, in the order chosen by NidOrder (default: sorted by id).
func (r *RecStorage) LoadByNodeId(ctx context.Context, m nodeenrollment.MessageWithNodeId) error {
	rec, ferr := r.begin("LoadByNodeId", typeName(m), m.GetNodeId(), false, nil)
	if ferr != nil {
		r.end(rec, ferr)
		return ferr
	}
	// a back end that looks records up by node id itself (the store-once test back end): use ITS lookup
	if native, ok := r.inner.(nodeenrollment.NodeIdLoader); ok && r.NativeNid {
		err := native.LoadByNodeId(ctx, m)
		r.end(rec, err)
		return err
	}
	set, ok := m.(*types.NodeInformationSet)
	if !ok {
		err := fmt.Errorf("unsupported message %T", m)
		r.end(rec, err)
		return err
	}
	ids, err := r.inner.List(ctx, (*types.NodeInformation)(nil))
	if err != nil {
		r.end(rec, err)
		return err
	}
	found := map[string]*types.NodeInformation{}
	var fids []string
	for _, id := range ids {
		ni := &types.NodeInformation{Id: id}
		if err := r.inner.Load(ctx, ni); err != nil {
			continue
		}
		if ni.NodeId == m.GetNodeId() {
			found[id] = ni
			fids = append(fids, id)
		}
	}
	if len(fids) == 0 {
		if r.NidEmptyOK {
			set.Nodes = nil
			r.end(rec, nil)
			return nil
		}
		r.end(rec, nodeenrollment.ErrNotFound)
		return nodeenrollment.ErrNotFound
	}
	if r.NidOrder != nil {
		fids = r.NidOrder(fids)
	}
	set.Nodes = nil
	for _, id := range fids {
		if ni, ok := found[id]; ok {
			set.Nodes = append(set.Nodes, ni)
		}
	}
	r.end(rec, nil)
	return nil
}
