// Package world concretises the abstract atoms of the TLA+ specifications
// (certificate keys k1.., encryption keys e1.., nonces n1.., tokens t1..,
// wrappers W1/W2, application states s1..) into real key material, builds
// honest and adversarial requests from them, and projects real storage
// contents back onto the abstract state used by the specifications.
package world

import (
	"bytes"
	"os"
	"path/filepath"
	"github.com/hashicorp/nodeenrollment/storage/file"
	"sync"
	"context"
	"crypto/ecdh"
	"crypto/ed25519"
	"crypto/rand"
	"crypto/sha256"
	"crypto/x509"
	"encoding/binary"
	"encoding/hex"
	"fmt"
	mrand "math/rand"
	"sort"
	"time"

	wrapping "github.com/hashicorp/go-kms-wrapping/v2"
	"github.com/hashicorp/go-kms-wrapping/v2/aead"
	"github.com/hashicorp/nodeenrollment"
	"github.com/hashicorp/nodeenrollment/registration"
	"github.com/hashicorp/nodeenrollment/rotation"
	"github.com/hashicorp/nodeenrollment/storage/inmem"
	"github.com/hashicorp/nodeenrollment/types"
	"github.com/mr-tron/base58"
	"google.golang.org/protobuf/proto"
	"google.golang.org/protobuf/types/known/structpb"
	"google.golang.org/protobuf/types/known/timestamppb"
)

const None = "none"

type CertKey struct {
	Name  string
	Pub   ed25519.PublicKey
	Priv  ed25519.PrivateKey
	Pkix  []byte
	Pkcs8 []byte
	KeyId string
}

type EncKey struct {
	Name string
	Priv []byte
	Pub  []byte
}

type Token struct {
	Name    string
	Id      string // storage id
	Token   string // full neslat_ string
	Nonce   []byte // marshalled ServerLedActivationTokenNonce (what goes into the request nonce)
	Created time.Time
	Stored  bool
}

// SafeAead is an AES-GCM wrapper honouring AAD (unlike the repository's test
// wrapper) that refuses short ciphertexts instead of panicking, so that the
// harness' own wrappers never inject configuration-dependent crashes.
type SafeAead struct {
	*aead.Wrapper
	Name string
	// OnDecrypt, when set, is called at the start of every Decrypt (a KMS round trip that a scheduler may hold up)
	OnDecrypt func()
}

func (s *SafeAead) Decrypt(ctx context.Context, in *wrapping.BlobInfo, opt ...wrapping.Option) ([]byte, error) {
	if s.OnDecrypt != nil {
		s.OnDecrypt()
	}
	if in == nil || len(in.Ciphertext) < 12 {
		return nil, fmt.Errorf("safeaead: ciphertext too short")
	}
	return s.Wrapper.Decrypt(ctx, in, opt...)
}

// RotWrapper is a wrapper whose encrypting key gets ROTATED before its first decryption: KeyId() then names the new
// key while values sealed under the earlier key still open (what a pooled / KMS-backed wrapper does after a key rotation).
type RotWrapper struct {
	mu      sync.Mutex
	keys    []*SafeAead
	rotated bool
	sealed  int // values sealed under the current key
	rng     *mrand.Rand
}

func NewRotWrapper(name string, rng *mrand.Rand) *RotWrapper {
	return &RotWrapper{keys: []*SafeAead{NewSafeAead(name+"-1", rng)}, rng: rng}
}
func (r *RotWrapper) cur() *SafeAead { return r.keys[len(r.keys)-1] }
func (r *RotWrapper) Type(ctx context.Context) (wrapping.WrapperType, error) { return r.cur().Type(ctx) }
func (r *RotWrapper) rotate() {
	r.keys = append(r.keys, NewSafeAead(fmt.Sprintf("rot-%d", len(r.keys)+1), r.rng))
	r.sealed = 0
	r.rotated = true
}

// KeyId: the key is rotated (at most three times) whenever something was sealed under the current key since it
// became current, i.e. between one storage operation of the library and the next
func (r *RotWrapper) KeyId(ctx context.Context) (string, error) {
	r.mu.Lock()
	defer r.mu.Unlock()
	if r.sealed > 0 && len(r.keys) < 4 {
		r.rotate()
	}
	return r.cur().KeyId(ctx)
}
func (r *RotWrapper) SetConfig(context.Context, ...wrapping.Option) (*wrapping.WrapperConfig, error) {
	return &wrapping.WrapperConfig{}, nil
}
func (r *RotWrapper) Encrypt(ctx context.Context, pt []byte, opt ...wrapping.Option) (*wrapping.BlobInfo, error) {
	r.mu.Lock()
	c := r.cur()
	r.sealed++
	r.mu.Unlock()
	return c.Encrypt(ctx, pt, opt...)
}
func (r *RotWrapper) Decrypt(ctx context.Context, in *wrapping.BlobInfo, opt ...wrapping.Option) ([]byte, error) {
	r.mu.Lock()
	if !r.rotated {
		r.rotate()
	}
	keys := append([]*SafeAead{}, r.keys...)
	r.mu.Unlock()
	var last error
	for _, k := range keys {
		id, _ := k.KeyId(ctx)
		if in != nil && in.KeyInfo != nil && in.KeyInfo.KeyId != "" && in.KeyInfo.KeyId != id {
			continue
		}
		pt, err := k.Decrypt(ctx, in, opt...)
		if err == nil {
			return pt, nil
		}
		last = err
	}
	if last == nil {
		last = fmt.Errorf("rotwrapper: no key for this value")
	}
	return nil, last
}

func NewSafeAead(name string, rng *mrand.Rand) *SafeAead {
	key := make([]byte, 32)
	rng.Read(key)
	w := aead.NewWrapper()
	if _, err := w.SetConfig(context.Background(), wrapping.WithKeyId(name), aead.WithKey(key)); err != nil {
		panic(err)
	}
	return &SafeAead{Wrapper: w, Name: name}
}

type World struct {
	Ctx      context.Context
	Rng      *mrand.Rand
	Inner    nodeenrollment.Storage
	Alias    *AliasStorage
	Rec      *RecStorage            // control/recording handle
	GoneSrc  map[string]GoneKey
	lastSrc  map[string]GoneKey
	Store    nodeenrollment.Storage // what the library is given (Rec behind a plain or NodeIdLoader facade)
	CertKeys map[string]*CertKey
	EncKeys  map[string]*EncKey
	Nonces   map[string][]byte
	Tokens   map[string]*Token
	Wrappers map[string]*SafeAead
	States   map[string]*structpb.Struct

	RegWrapper     string // name or None: the server's configured registration wrapper
	StorageWrapper string // name or None

	seed int64
	// generation ids of observed server encryption private keys
	srvGen map[string]int
	// AgeBoundary is the instant of the last AgeAll step
	AgeBoundary time.Time
}

// AliasStorage lets the harness make the storage key of one activation token answer with the whole stored
// record of another (what copying one record over another's key amounts to on a real back end).
type AliasStorage struct {
	nodeenrollment.Storage
	mu         sync.Mutex // the listener's handshakes reach storage concurrently
	TokenAlias map[string]*types.ServerLedActivationToken // storage key -> the record (a copy taken at transplant time) that answers
}

func (a *AliasStorage) Remove(ctx context.Context, m nodeenrollment.MessageWithId) error {
	if t, ok := m.(*types.ServerLedActivationToken); ok {
		a.mu.Lock()
		delete(a.TokenAlias, t.Id)
		a.mu.Unlock()
	}
	return a.Storage.Remove(ctx, m)
}

// LoadByNodeId forwards to the inner back end when that one looks records up by node id itself.
func (a *AliasStorage) LoadByNodeId(ctx context.Context, m nodeenrollment.MessageWithNodeId) error {
	if n, ok := a.Storage.(nodeenrollment.NodeIdLoader); ok {
		return n.LoadByNodeId(ctx, m)
	}
	return nodeenrollment.ErrNotFound
}

func (a *AliasStorage) Load(ctx context.Context, m nodeenrollment.MessageWithId) error {
	if t, ok := m.(*types.ServerLedActivationToken); ok {
		a.mu.Lock()
		src, ok := a.TokenAlias[t.Id]
		a.mu.Unlock()
		if ok {
			proto.Reset(t)
			proto.Merge(t, src)
			return nil
		}
	}
	return a.Storage.Load(ctx, m)
}

// SwitchStorage routes every operation to one of several handles on the SAME on-disk directory (several processes
// sharing a volume).  Cur selects the handle; -1 opens a fresh handle for the operation (used by the harness' own
// projections and edits, so that nothing a handle may remember gets in their way).
type SwitchStorage struct {
	Dir     string
	Handles []nodeenrollment.Storage
	Cur     int
}

func (s *SwitchStorage) h() nodeenrollment.Storage {
	if s.Cur >= 0 && s.Cur < len(s.Handles) {
		return s.Handles[s.Cur]
	}
	f, err := file.New(context.Background(), file.WithBaseDirectory(s.Dir))
	if err != nil {
		panic(err)
	}
	return f
}
func (s *SwitchStorage) Store(ctx context.Context, m nodeenrollment.MessageWithId) error { return s.h().Store(ctx, m) }
func (s *SwitchStorage) Load(ctx context.Context, m nodeenrollment.MessageWithId) error  { return s.h().Load(ctx, m) }
func (s *SwitchStorage) Remove(ctx context.Context, m nodeenrollment.MessageWithId) error {
	return s.h().Remove(ctx, m)
}
func (s *SwitchStorage) List(ctx context.Context, m proto.Message) ([]string, error) { return s.h().List(ctx, m) }

// NewSwitchStorage creates n handles on a new temporary directory; cleanup removes it.
func NewSwitchStorage(n int) (*SwitchStorage, func(), error) {
	tmp, err := os.MkdirTemp("", "nevshared")
	if err != nil {
		return nil, nil, err
	}
	sw := &SwitchStorage{Dir: filepath.Join(tmp, "store"), Cur: -1}
	for i := 0; i < n; i++ {
		f, err := file.New(context.Background(), file.WithBaseDirectory(sw.Dir))
		if err != nil {
			return nil, nil, err
		}
		sw.Handles = append(sw.Handles, f)
	}
	return sw, func() { _ = os.RemoveAll(tmp) }, nil
}

// ToggleCtx is a context the harness can really cancel (every later ctx.Done()/Err() says so) and revive again for its
// own inspections afterwards.
type ToggleCtx struct {
	mu   sync.Mutex
	done chan struct{}
	err  error
}

func NewToggleCtx() *ToggleCtx { return &ToggleCtx{done: make(chan struct{})} }
func (t *ToggleCtx) Deadline() (time.Time, bool) { return time.Time{}, false }
func (t *ToggleCtx) Value(any) any              { return nil }
func (t *ToggleCtx) Done() <-chan struct{} {
	t.mu.Lock()
	defer t.mu.Unlock()
	return t.done
}
func (t *ToggleCtx) Err() error {
	t.mu.Lock()
	defer t.mu.Unlock()
	return t.err
}
func (t *ToggleCtx) Cancel() {
	t.mu.Lock()
	defer t.mu.Unlock()
	if t.err == nil {
		t.err = context.Canceled
		close(t.done)
	}
}
func (t *ToggleCtx) Revive() {
	t.mu.Lock()
	defer t.mu.Unlock()
	if t.err != nil {
		t.err = nil
		t.done = make(chan struct{})
	}
}

type Config struct {
	Seed           int64
	CertKeys       int
	EncKeys        int
	Nonces         int
	Tokens         int
	States         int
	StorageWrapper bool
	NodeIdLoader   bool
	Inner          nodeenrollment.Storage // nil => inmem
}

func detRand(seed int64) *mrand.Rand { return mrand.New(mrand.NewSource(seed)) }

type rngReader struct{ r *mrand.Rand }

func (r rngReader) Read(p []byte) (int, error) { return r.r.Read(p) }

// New builds a fresh world. Key material is drawn from crypto/rand (the
// abstract names are what matter); Rng only drives the harness' own choices.
func New(cfg Config) (*World, error) {
	ctx := context.Background()
	w := &World{
		Ctx:            ctx,
		Rng:            detRand(cfg.Seed),
		CertKeys:       map[string]*CertKey{},
		EncKeys:        map[string]*EncKey{},
		Nonces:         map[string][]byte{},
		Tokens:         map[string]*Token{},
		Wrappers:       map[string]*SafeAead{},
		States:         map[string]*structpb.Struct{},
		RegWrapper:     None,
		StorageWrapper: None,
		srvGen:         map[string]int{},
		seed:           cfg.Seed,
	}
	inner := cfg.Inner
	if inner == nil {
		s, err := inmem.New(ctx)
		if err != nil {
			return nil, err
		}
		inner = s
	}
	w.Alias = &AliasStorage{Storage: inner, TokenAlias: map[string]*types.ServerLedActivationToken{}}
	inner = w.Alias
	w.Inner = inner
	w.Rec = NewRecStorage(inner, cfg.NodeIdLoader)
	w.Store = w.Rec.AsStorage()
	def := func(n, d int) int {
		if n == 0 {
			return d
		}
		return n
	}
	for i := 1; i <= def(cfg.CertKeys, 3); i++ {
		w.addCertKey(fmt.Sprintf("k%d", i))
	}
	for i := 1; i <= def(cfg.EncKeys, 2); i++ {
		w.addEncKey(fmt.Sprintf("e%d", i))
	}
	for i := 1; i <= def(cfg.Nonces, 2); i++ {
		n := make([]byte, nodeenrollment.NonceSize)
		rand.Read(n)
		w.Nonces[fmt.Sprintf("n%d", i)] = n
	}
	for i := 1; i <= def(cfg.States, 2); i++ {
		name := fmt.Sprintf("s%d", i)
		st, _ := structpb.NewStruct(map[string]any{"name": name, "i": float64(i)})
		w.States[name] = st
	}
	w.Wrappers["W1"] = NewSafeAead("W1", w.Rng)
	w.Wrappers["W2"] = NewSafeAead("W2", w.Rng)
	w.Wrappers["SW"] = NewSafeAead("SW", w.Rng)
	w.Wrappers["SX"] = NewSafeAead("SX", w.Rng)
	if cfg.StorageWrapper {
		w.StorageWrapper = "SW"
	}
	return w, nil
}

func (w *World) addCertKey(name string) *CertKey {
	pub, priv, err := ed25519.GenerateKey(rand.Reader)
	if err != nil {
		panic(err)
	}
	pkix, keyId, err := nodeenrollment.SubjectKeyInfoAndKeyIdFromPubKey(pub)
	if err != nil {
		panic(err)
	}
	pkcs8, err := x509.MarshalPKCS8PrivateKey(priv)
	if err != nil {
		panic(err)
	}
	ck := &CertKey{Name: name, Pub: pub, Priv: priv, Pkix: pkix, Pkcs8: pkcs8, KeyId: keyId}
	w.CertKeys[name] = ck
	return ck
}

func (w *World) addEncKey(name string) *EncKey {
	priv := make([]byte, 32)
	rand.Read(priv)
	pk, err := ecdh.X25519().NewPrivateKey(priv)
	if err != nil {
		panic(err)
	}
	ek := &EncKey{Name: name, Priv: priv, Pub: pk.PublicKey().Bytes()}
	w.EncKeys[name] = ek
	return ek
}

// EnsureCertKey returns the named key, creating it when the behaviour uses a
// name outside the initial pool.
func (w *World) EnsureCertKey(name string) *CertKey {
	if k, ok := w.CertKeys[name]; ok {
		return k
	}
	return w.addCertKey(name)
}

func (w *World) EnsureEncKey(name string) *EncKey {
	if k, ok := w.EncKeys[name]; ok {
		return k
	}
	return w.addEncKey(name)
}

// Opts returns the server-side options for library calls.
func (w *World) Opts(extra ...nodeenrollment.Option) []nodeenrollment.Option {
	var o []nodeenrollment.Option
	if w.StorageWrapper != None {
		o = append(o, nodeenrollment.WithStorageWrapper(w.Wrappers[w.StorageWrapper]))
	}
	if w.RegWrapper != None {
		o = append(o, nodeenrollment.WithRegistrationWrapper(w.Wrappers[w.RegWrapper]))
	}
	return append(o, extra...)
}

// StorageOpts returns only the storage-wrapper option.
func (w *World) StorageOpts(extra ...nodeenrollment.Option) []nodeenrollment.Option {
	var o []nodeenrollment.Option
	if w.StorageWrapper != None {
		o = append(o, nodeenrollment.WithStorageWrapper(w.Wrappers[w.StorageWrapper]))
	}
	return append(o, extra...)
}

// ObsOpts is StorageOpts for the harness' OWN observations of storage: the same key material behind a wrapper object of
// its own, so that what the harness reads never depends on (or feeds) anything the library remembers per wrapper object.
func (w *World) ObsOpts() []nodeenrollment.Option {
	if w.StorageWrapper == None {
		return nil
	}
	sw := w.Wrappers[w.StorageWrapper]
	return []nodeenrollment.Option{nodeenrollment.WithStorageWrapper(&SafeAead{Wrapper: sw.Wrapper, Name: sw.Name})}
}

func (w *World) InitRoots(opt ...nodeenrollment.Option) (*types.RootCertificates, error) {
	return rotation.RotateRootCertificates(w.Ctx, w.Store, w.StorageOpts(opt...)...)
}

// NonceBytes maps an abstract nonce name to the bytes placed in a request:
// n1.. are 32-byte nonces, t1.. the pool tokens (minted unstored on demand when
// the behaviour uses one that was never created), "tf" a well-formed token the
// server never issued, "tg" bytes that are neither 32 long nor a token.
func (w *World) NonceBytes(name string) []byte {
	if b, ok := w.Nonces[name]; ok {
		return b
	}
	if t, ok := w.Tokens[name]; ok {
		return t.Nonce
	}
	switch {
	case name == "tg":
		b := make([]byte, 17)
		for i := range b {
			b[i] = 0xff
		}
		w.Nonces[name] = b
		return b
	case name == "tf" || (len(name) > 0 && name[0] == 't'):
		t, err := w.mintToken(name, false, nil)
		if err != nil {
			panic(err)
		}
		return t.Nonce
	}
	// unknown plain nonce: mint
	n := make([]byte, nodeenrollment.NonceSize)
	rand.Read(n)
	w.Nonces[name] = n
	return n
}

func (w *World) mintToken(name string, store bool, state *structpb.Struct) (*Token, error) {
	// The token bytes are drawn from a per-name deterministic reader, so that a
	// token first referenced before its creation (minted unstored) and the
	// token later really created under the same name are the same token.
	opts := w.StorageOpts(nodeenrollment.WithRandomReader(rngReader{detRand(Uint64Seed(w.seed, "token/"+name))}))
	if !store {
		opts = append(opts, nodeenrollment.WithSkipStorage(true))
	}
	if state != nil {
		opts = append(opts, nodeenrollment.WithState(state))
	}
	id, tok, err := registration.CreateServerLedActivationToken(w.Ctx, w.Store, &types.ServerLedRegistrationRequest{}, opts...)
	if err != nil {
		return nil, err
	}
	nonce, err := base58.FastBase58Decoding(tok[len(nodeenrollment.ServerLedActivationTokenPrefix):])
	if err != nil {
		return nil, err
	}
	t := &Token{Name: name, Id: id, Token: tok, Nonce: nonce, Created: time.Now(), Stored: store}
	w.Tokens[name] = t
	return t, nil
}

// CreateToken runs the real token creation and registers it under name.
func (w *World) CreateToken(name, state string) (*Token, error) {
	var st *structpb.Struct
	if state != None && state != "" {
		st = w.States[state]
	}
	return w.mintToken(name, true, st)
}

type FetchSpec struct {
	K, E      string // abstract cert key / encryption key
	Nonce     string
	WrapW     string // wrapper name or none
	WrapK     string
	WrapN     string
	RewrapBy  string // claimed rewrapping key id (cert key name) or none
	RewrapKey string // record whose shared key really encrypts: cert key name or "rand"
	RewrapK   string
	RewrapN   string
	NotBefore time.Time
	NotAfter  time.Time
	SignWith  string // cert key used to sign (default K)
	PrevK     string // previous certificate key (none)
	SelfInfo  bool   // the bundle carries a self-asserted registration-flow info for its own key and nonce
	WrongId   bool   // the bundle's (so far unused) id field is set, and is NOT the key id of its certificate key
}

// BuildInfo assembles the signed-bundle content.
func (w *World) BuildInfo(fs FetchSpec) (*types.FetchNodeCredentialsInfo, error) {
	ck := w.EnsureCertKey(fs.K)
	ek := w.EnsureEncKey(fs.E)
	nb, na := fs.NotBefore, fs.NotAfter
	if nb.IsZero() {
		nb = time.Now()
	}
	if na.IsZero() {
		na = nb.Add(nodeenrollment.DefaultFetchCredentialsLifetime)
	}
	info := &types.FetchNodeCredentialsInfo{
		CertificatePublicKeyPkix: ck.Pkix,
		CertificatePublicKeyType: types.KEYTYPE_ED25519,
		EncryptionPublicKeyBytes: ek.Pub,
		EncryptionPublicKeyType:  types.KEYTYPE_X25519,
		Nonce:                    w.NonceBytes(fs.Nonce),
		NotBefore:                timestamppb.New(nb),
		NotAfter:                 timestamppb.New(na),
	}
	if fs.PrevK != "" && fs.PrevK != None {
		info.PreviousCertificatePublicKeyPkix = w.EnsureCertKey(fs.PrevK).Pkix
	}
	if fs.WrongId {
		info.Id = "not-the-key-id-of-this-bundle"
	}
	if fs.SelfInfo {
		info.WrappingRegistrationFlowInfo = &types.WrappingRegistrationFlowInfo{CertificatePublicKeyPkix: ck.Pkix, Nonce: w.NonceBytes(fs.Nonce)}
	}
	if fs.WrapW != "" && fs.WrapW != None {
		// "absent": the sealed info lacks that field altogether
		regInfo := &types.WrappingRegistrationFlowInfo{}
		if fs.WrapK != "absent" {
			regInfo.CertificatePublicKeyPkix = w.EnsureCertKey(fs.WrapK).Pkix
		}
		if fs.WrapN != "absent" {
			regInfo.Nonce = w.NonceBytes(fs.WrapN)
		}
		b, err := proto.Marshal(regInfo)
		if err != nil {
			return nil, err
		}
		blob, err := w.Wrappers[fs.WrapW].Encrypt(w.Ctx, b)
		if err != nil {
			return nil, err
		}
		info.WrappedRegistrationInfo, err = proto.Marshal(blob)
		if err != nil {
			return nil, err
		}
	}
	return info, nil
}

// SignInfo marshals and signs the bundle.
func (w *World) SignInfo(info *types.FetchNodeCredentialsInfo, signer string) (*types.FetchNodeCredentialsRequest, error) {
	b, err := proto.Marshal(info)
	if err != nil {
		return nil, err
	}
	ck := w.EnsureCertKey(signer)
	return &types.FetchNodeCredentialsRequest{Bundle: b, BundleSignature: ed25519.Sign(ck.Priv, b)}, nil
}

// BuildFetch builds a well-signed request from abstract parts.
func (w *World) BuildFetch(fs FetchSpec) (*types.FetchNodeCredentialsRequest, error) {
	info, err := w.BuildInfo(fs)
	if err != nil {
		return nil, err
	}
	signer := fs.SignWith
	if signer == "" {
		signer = fs.K
	}
	req, err := w.SignInfo(info, signer)
	if err != nil {
		return nil, err
	}
	if fs.RewrapBy != "" && fs.RewrapBy != None {
		regInfo := &types.WrappingRegistrationFlowInfo{
			CertificatePublicKeyPkix: w.EnsureCertKey(fs.RewrapK).Pkix,
			Nonce:                    w.NonceBytes(fs.RewrapN),
		}
		src, err := w.NodeSideKeySource(fs.RewrapKey)
		if err != nil {
			return nil, err
		}
		// an intermediate whose record has been removed still holds the keys it had: it re-wraps with those
		if fs.RewrapBy == fs.RewrapKey && !w.recordPresent(fs.RewrapKey) {
			if g, ok := w.GoneSrc[fs.RewrapKey]; ok {
				src = g.Src
			}
		}
		ct, err := nodeenrollment.EncryptMessage(w.Ctx, regInfo, src)
		if err != nil {
			return nil, err
		}
		req.RewrappedWrappingRegistrationFlowInfo = ct
		req.RewrappingKeyId = w.EnsureCertKey(fs.RewrapBy).KeyId
	}
	return req, nil
}

// GoneKey is the node-side view of the key shared with a record that has since been removed or replaced.
type GoneKey struct {
	Src     *types.NodeCredentials
	SrvPriv []byte
	Enc     string
}

func (w *World) recordPresent(rec string) bool {
	if rec == "rand" || rec == None || rec == "" {
		return false
	}
	return w.Inner.Load(w.Ctx, &types.NodeInformation{Id: w.EnsureCertKey(rec).KeyId}) == nil
}

// ObserveKeys remembers, per certificate key, the node-side key source of its present record; when the record is later
// removed or given another server key, the remembered one becomes the key's "gone" source.
func (w *World) ObserveKeys(keys []string) {
	if w.GoneSrc == nil {
		w.GoneSrc, w.lastSrc = map[string]GoneKey{}, map[string]GoneKey{}
	}
	for _, k := range keys {
		ck := w.EnsureCertKey(k)
		ni, err := types.LoadNodeInformation(w.Ctx, w.Inner, ck.KeyId, w.ObsOpts()...)
		last, had := w.lastSrc[k]
		if err != nil || len(ni.ServerEncryptionPrivateKeyBytes) == 0 {
			if had && !w.recordPresent(k) {
				w.GoneSrc[k] = last
				delete(w.lastSrc, k)
			}
			continue
		}
		if had && bytes.Equal(last.SrvPriv, ni.ServerEncryptionPrivateKeyBytes) {
			continue
		}
		src, serr := w.NodeSideKeySource(k)
		if serr != nil || w.EncName(ni.EncryptionPublicKeyBytes) == "" {
			continue
		}
		if had {
			w.GoneSrc[k] = last
		}
		w.lastSrc[k] = GoneKey{Src: src, SrvPriv: append([]byte(nil), ni.ServerEncryptionPrivateKeyBytes...), Enc: w.EncName(ni.EncryptionPublicKeyBytes)}
	}
}

// NodeSideKeySource returns the node-side view (a NodeCredentials) of the key
// shared with the server record of cert key `rec`, read from current storage;
// "rand" or an absent record yield unrelated key material.
func (w *World) NodeSideKeySource(rec string) (*types.NodeCredentials, error) {
	if rec != "rand" && rec != None && rec != "" {
		ck := w.EnsureCertKey(rec)
		ni, err := types.LoadNodeInformation(w.Ctx, w.Inner, ck.KeyId, w.ObsOpts()...)
		if err == nil {
			encName := w.EncName(ni.EncryptionPublicKeyBytes)
			if ek, ok := w.EncKeys[encName]; ok {
				sp, err := ecdh.X25519().NewPrivateKey(ni.ServerEncryptionPrivateKeyBytes)
				if err == nil {
					return &types.NodeCredentials{
						CertificatePublicKeyPkix:       ck.Pkix,
						EncryptionPrivateKeyBytes:      ek.Priv,
						EncryptionPrivateKeyType:       types.KEYTYPE_X25519,
						ServerEncryptionPublicKeyBytes: sp.PublicKey().Bytes(),
						ServerEncryptionPublicKeyType:  types.KEYTYPE_X25519,
					}, nil
				}
			}
		}
	}
	// unrelated material (also for records that hold no usable server key)
	priv := make([]byte, 32)
	rand.Read(priv)
	spriv := make([]byte, 32)
	rand.Read(spriv)
	sp, _ := ecdh.X25519().NewPrivateKey(spriv)
	pkix := w.EnsureCertKey("kx").Pkix
	if rec != "rand" && rec != None && rec != "" {
		pkix = w.EnsureCertKey(rec).Pkix
	}
	return &types.NodeCredentials{
		CertificatePublicKeyPkix:       pkix,
		EncryptionPrivateKeyBytes:      priv,
		EncryptionPrivateKeyType:       types.KEYTYPE_X25519,
		ServerEncryptionPublicKeyBytes: sp.PublicKey().Bytes(),
		ServerEncryptionPublicKeyType:  types.KEYTYPE_X25519,
	}, nil
}

// ---- reverse lookups (bytes -> abstract names) ----

func (w *World) CertName(pkix []byte) string {
	for n, k := range w.CertKeys {
		if string(k.Pkix) == string(pkix) {
			return n
		}
	}
	if len(pkix) == 0 {
		return None
	}
	return "?"
}

func (w *World) CertNameById(id string) string {
	for n, k := range w.CertKeys {
		if k.KeyId == id {
			return n
		}
	}
	return "?"
}

func (w *World) EncName(pub []byte) string {
	for n, k := range w.EncKeys {
		if string(k.Pub) == string(pub) {
			return n
		}
	}
	if len(pub) == 0 {
		return None
	}
	return "?"
}

func (w *World) NonceName(b []byte) string {
	for n, v := range w.Nonces {
		if string(v) == string(b) {
			return n
		}
	}
	for n, t := range w.Tokens {
		if string(t.Nonce) == string(b) {
			return n
		}
	}
	if len(b) == 0 {
		return None
	}
	return "?"
}

func (w *World) StateName(s *structpb.Struct) string {
	if s == nil {
		return None
	}
	if v, ok := s.Fields["name"]; ok {
		return v.GetStringValue()
	}
	return "?"
}

// SrvGen numbers distinct server encryption private keys in order of first
// observation (1, 2, ...); 0 means absent.
func (w *World) SrvGen(priv []byte) int {
	if len(priv) == 0 {
		return 0
	}
	h := sha256.Sum256(priv)
	k := hex.EncodeToString(h[:8])
	if g, ok := w.srvGen[k]; ok {
		return g
	}
	g := len(w.srvGen) + 1
	w.srvGen[k] = g
	return g
}

// ---- projection ----

type NodeProj struct {
	Present bool   `json:"present"`
	Nonce   string `json:"nonce"`
	Enc     string `json:"enc"`
	State   string `json:"state"`
	Srv     int    `json:"srv"`
	Nid     string `json:"nid"`
	PrevK   string `json:"prevk"`
	PrevSrv int    `json:"prevsrv"`
	PrevEnc string `json:"prevenc"`
	PrevCK  string `json:"prevck"` // previous_certificate_public_key_pkix
	Bundles int    `json:"bundles"`
	Cert    string `json:"cert"` // name of the key in certificate_public_key_pkix (should equal the map key)
	Kt      string `json:"kt"`   // "ed" | "other": type of the stored certificate public key
}

func AbsentNode() NodeProj {
	return NodeProj{Nonce: None, Enc: None, State: None, Nid: None, PrevK: None, PrevEnc: None, PrevCK: None, Cert: None, Kt: "ed"}
}

type TokProj struct {
	St    string `json:"st"` // "absent" | "live"
	State string `json:"state"`
}

type Proj struct {
	Nodes  map[string]NodeProj `json:"nodes"`
	Tokens map[string]TokProj  `json:"tokens"`
	Regw   string              `json:"regw"`
	Extra  []string            `json:"extra"` // node records under ids not matching any pool key
}

// Project reads the inner storage (bypassing fault injection and logging).
func (w *World) Project(certNames, tokNames []string) Proj {
	p := Proj{Nodes: map[string]NodeProj{}, Tokens: map[string]TokProj{}, Regw: w.RegWrapper, Extra: []string{}}
	for _, n := range certNames {
		p.Nodes[n] = AbsentNode()
	}
	ids, _ := w.Inner.List(w.Ctx, (*types.NodeInformation)(nil))
	sort.Strings(ids)
	for _, id := range ids {
		name := w.CertNameById(id)
		ni, err := types.LoadNodeInformation(w.Ctx, w.Inner, id, w.ObsOpts()...)
		if err != nil {
			p.Extra = append(p.Extra, "unloadable:"+name)
			continue
		}
		np := NodeProj{
			Present: true,
			Nonce:   w.NonceName(ni.RegistrationNonce),
			Enc:     w.EncName(ni.EncryptionPublicKeyBytes),
			State:   w.StateName(ni.State),
			Srv:     w.SrvGen(ni.ServerEncryptionPrivateKeyBytes),
			Nid:     None,
			PrevK:   None,
			PrevEnc: None,
			PrevCK:  w.CertName(ni.PreviousCertificatePublicKeyPkix),
			Bundles: len(ni.CertificateBundles),
			Cert:    w.CertName(ni.CertificatePublicKeyPkix),
			Kt:      "other",
		}
		if pk, err := x509.ParsePKIXPublicKey(ni.CertificatePublicKeyPkix); err == nil {
			if _, ok := pk.(ed25519.PublicKey); ok {
				np.Kt = "ed"
			}
		}
		if ni.NodeId != "" {
			np.Nid = ni.NodeId
		}
		if pk := ni.PreviousEncryptionKey; pk != nil {
			np.PrevK = w.CertNameById(pk.KeyId)
			np.PrevSrv = w.SrvGen(pk.PrivateKeyPkcs8)
			np.PrevEnc = w.EncName(pk.PublicKeyPkix)
		}
		if _, ok := p.Nodes[name]; ok {
			p.Nodes[name] = np
		} else {
			p.Extra = append(p.Extra, name)
		}
	}
	for _, tn := range tokNames {
		tp := TokProj{St: "absent", State: None}
		if t, ok := w.Tokens[tn]; ok && t.Stored {
			te := &types.ServerLedActivationToken{Id: t.Id}
			if err := w.Inner.Load(w.Ctx, te); err == nil {
				tp.St = "live"
				tp.State = w.StateName(te.State)
			}
		}
		p.Tokens[tn] = tp
	}
	return p
}

// Uint64Seed derives a sub-seed.
func Uint64Seed(seed int64, salt string) int64 {
	h := sha256.Sum256([]byte(fmt.Sprintf("%d/%s", seed, salt)))
	return int64(binary.BigEndian.Uint64(h[:8]) >> 1)
}

// SrvGenCount is the number of distinct server encryption keys observed so far.
func (w *World) SrvGenCount() int { return len(w.srvGen) }
