// nev: drivers that replay abstract behaviours on the real library and
// record traces for TLC validation.
package main

import (
	"bufio"
	"encoding/json"
	"flag"
	"fmt"
	"os"
	"sync"

	"verifharness/drivers/alpn"
	"verifharness/drivers/enrol"
	"verifharness/drivers/faults"
	"verifharness/drivers/hsd"
	"verifharness/drivers/iso"
	"verifharness/drivers/mux"
	"verifharness/drivers/reg"
	"verifharness/drivers/roots"
	"verifharness/drivers/seal"
	"verifharness/drivers/split"
	"verifharness/drivers/store"
)

func die(err error) {
	fmt.Fprintln(os.Stderr, "nev:", err)
	os.Exit(2)
}

type famFn func(in, out string, seed int64, par int, tier string) error

// families maps a family name to its runner; other files of this package add to it in init().
var families = map[string]famFn{
	"reg": func(in, out string, seed int64, par int, tier string) error {
		return runFamily(in, out, seed, par, reg.Run, func(b reg.Behaviour) string { return b.Id })
	},
	"alpn": func(in, out string, seed int64, par int, tier string) error {
		return runFamily(in, out, seed, par, alpn.Run, func(b alpn.Behaviour) string { return b.Id })
	},
	"enrol": func(in, out string, seed int64, par int, tier string) error {
		return runFamily(in, out, seed, par, enrol.Run, func(b enrol.Behaviour) string { return b.Id })
	},
	"faults": func(in, out string, seed int64, par int, tier string) error {
		return runFamily(in, out, seed, par, faults.Run, func(b faults.Behaviour) string { return b.Id })
	},
	"hsd": func(in, out string, seed int64, par int, tier string) error {
		return runFamily(in, out, seed, par, hsd.Run, func(b hsd.Behaviour) string { return b.Id })
	},
	"iso": func(in, out string, seed int64, par int, tier string) error {
		return runFamily(in, out, seed, par, iso.Run, func(b iso.Behaviour) string { return b.Id })
	},
	"mux": func(in, out string, seed int64, par int, tier string) error {
		return runFamily(in, out, seed, par, mux.Run, func(b mux.Instance) string { return b.Id })
	},
	"seal": func(in, out string, seed int64, par int, tier string) error {
		return runFamily(in, out, seed, par, seal.Run, func(b seal.Behaviour) string { return b.Id })
	},
	"split": func(in, out string, seed int64, par int, tier string) error {
		return runFamily(in, out, seed, par, split.Run, func(b split.Behaviour) string { return b.Id })
	},
	"store": func(in, out string, seed int64, par int, tier string) error {
		return runFamily(in, out, seed, par, store.Run, func(b store.Behaviour) string { return b.Id })
	},
	"roots": func(in, out string, seed int64, par int, tier string) error {
		return runFamily(in, out, seed, par, roots.Run, func(b roots.Behaviour) string { return b.Id })
	},
}

func main() {
	if len(os.Args) < 2 {
		die(fmt.Errorf("usage: nev <family> [flags]"))
	}
	fam := os.Args[1]
	fs := flag.NewFlagSet(fam, flag.ExitOnError)
	in := fs.String("in", "", "behaviours (ndjson)")
	out := fs.String("out", "", "trace output (ndjson)")
	seed := fs.Int64("seed", 1, "seed")
	par := fs.Int("par", 16, "parallel behaviours")
	tier := fs.String("tier", "quick", "tier")
	fs.Parse(os.Args[2:])
	f, ok := families[fam]
	if !ok {
		die(fmt.Errorf("unknown family %q", fam))
	}
	if err := f(*in, *out, *seed, *par, *tier); err != nil {
		die(err)
	}
}

func readLines(path string, each func([]byte) error) error {
	f, err := os.Open(path)
	if err != nil {
		return err
	}
	defer f.Close()
	sc := bufio.NewScanner(f)
	sc.Buffer(make([]byte, 1<<20), 1<<28)
	for sc.Scan() {
		if len(sc.Bytes()) == 0 {
			continue
		}
		cp := append([]byte(nil), sc.Bytes()...)
		if err := each(cp); err != nil {
			return err
		}
	}
	return sc.Err()
}

// runFamily runs every behaviour of the input on a fresh world (in parallel)
// and writes the recorded lines, in input order, as ndjson.
func runFamily[B any, L any](in, out string, seed int64, par int, run func(B, int64) ([]L, error), id func(B) string) error {
	var bhs []B
	if err := readLines(in, func(b []byte) error {
		var bh B
		if err := json.Unmarshal(b, &bh); err != nil {
			return err
		}
		bhs = append(bhs, bh)
		return nil
	}); err != nil {
		return err
	}
	results := make([][]L, len(bhs))
	errs := make([]error, len(bhs))
	sem := make(chan struct{}, par)
	var wg sync.WaitGroup
	for i := range bhs {
		wg.Add(1)
		sem <- struct{}{}
		go func(i int) {
			defer wg.Done()
			defer func() { <-sem }()
			defer func() {
				if p := recover(); p != nil {
					errs[i] = fmt.Errorf("driver panic: %v", p)
				}
			}()
			results[i], errs[i] = run(bhs[i], seed)
		}(i)
	}
	wg.Wait()
	f, err := os.Create(out)
	if err != nil {
		return err
	}
	defer f.Close()
	bw := bufio.NewWriter(f)
	enc := json.NewEncoder(bw)
	for i := range bhs {
		if errs[i] != nil {
			return fmt.Errorf("behaviour %s: %w", id(bhs[i]), errs[i])
		}
		for _, l := range results[i] {
			if err := enc.Encode(l); err != nil {
				return err
			}
		}
	}
	return bw.Flush()
}
