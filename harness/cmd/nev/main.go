// nev: drivers that replay abstract behaviours on the real library and
// record traces for TLC validation.
package main

import (
	"bufio"
	"encoding/json"
	"flag"
	"fmt"
	"os"
	"sync"

	"verifharness/drivers/reg"
)

func die(err error) {
	fmt.Fprintln(os.Stderr, "nev:", err)
	os.Exit(2)
}

func main() {
	if len(os.Args) < 2 {
		die(fmt.Errorf("usage: nev <family> [flags]"))
	}
	fam := os.Args[1]
	fs := flag.NewFlagSet(fam, flag.ExitOnError)
	in := fs.String("in", "", "behaviours (ndjson)")
	out := fs.String("out", "", "trace output (ndjson)")
	seed := fs.Int64("seed", 1, "seed")
	par := fs.Int("par", 16, "parallel behaviours")
	tier := fs.String("tier", "quick", "tier")
	fs.Parse(os.Args[2:])
	_ = tier
	switch fam {
	case "reg":
		runReg(*in, *out, *seed, *par)
	default:
		if f, ok := families[fam]; ok {
			if err := f(*in, *out, *seed, *par, *tier); err != nil {
				die(err)
			}
			return
		}
		die(fmt.Errorf("unknown family %q", fam))
	}
}

// families is extended by the other driver files of this package.
var families = map[string]func(in, out string, seed int64, par int, tier string) error{}

func readLines(path string, each func([]byte) error) error {
	f, err := os.Open(path)
	if err != nil {
		return err
	}
	defer f.Close()
	sc := bufio.NewScanner(f)
	sc.Buffer(make([]byte, 1<<20), 1<<28)
	for sc.Scan() {
		if len(sc.Bytes()) == 0 {
			continue
		}
		cp := append([]byte(nil), sc.Bytes()...)
		if err := each(cp); err != nil {
			return err
		}
	}
	return sc.Err()
}

func runReg(in, out string, seed int64, par int) {
	var bhs []reg.Behaviour
	if err := readLines(in, func(b []byte) error {
		var bh reg.Behaviour
		if err := json.Unmarshal(b, &bh); err != nil {
			return err
		}
		bhs = append(bhs, bh)
		return nil
	}); err != nil {
		die(err)
	}
	results := make([][]reg.Line, len(bhs))
	errs := make([]error, len(bhs))
	sem := make(chan struct{}, par)
	var wg sync.WaitGroup
	for i := range bhs {
		wg.Add(1)
		sem <- struct{}{}
		go func(i int) {
			defer wg.Done()
			defer func() { <-sem }()
			results[i], errs[i] = reg.Run(bhs[i], seed)
		}(i)
	}
	wg.Wait()
	f, err := os.Create(out)
	if err != nil {
		die(err)
	}
	defer f.Close()
	bw := bufio.NewWriter(f)
	for i := range bhs {
		if errs[i] != nil {
			die(fmt.Errorf("behaviour %s: %w", bhs[i].Id, errs[i]))
		}
		b, err := reg.MarshalLines(results[i])
		if err != nil {
			die(err)
		}
		bw.Write(b)
	}
	bw.Flush()
}
