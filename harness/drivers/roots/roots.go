// Package roots replays Roots.tla behaviours on the real
// rotation.RotateRootCertificates under VIRTUAL time: the rotation code decides
// and computes only from the not_before/not_after timestamps of the stored
// record and time.Now(), so advancing virtual time by d is done by shifting the
// stored timestamps by -d (the harness owns storage).  All instants are logged
// as integers in a per-trace fine unit (coarse grid unit / 1000).
package roots

import (
	"math/big"
	"crypto/ed25519"
	"crypto/rand"
	"crypto/x509"
	"encoding/json"
	"errors"
	"fmt"
	"strings"
	"time"

	"github.com/hashicorp/nodeenrollment"
	"github.com/hashicorp/nodeenrollment/registration"
	"github.com/hashicorp/nodeenrollment/rotation"
	"github.com/hashicorp/nodeenrollment/types"
	"google.golang.org/protobuf/types/known/timestamppb"

	"verifharness/world"
)

const K = 1000 // fine units per coarse grid unit

type Cfg struct {
	L      int   `json:"L"` // coarse units
	SkNB   int   `json:"sknb"`
	SkNA   int   `json:"skna"`
	R      int   `json:"R"`      // server cadence bound (coarse), 0 = none
	N      int   `json:"N"`      // node cadence bound (coarse), 0 = none
	UnitMs int64 `json:"unitMs"` // coarse grid unit in milliseconds
	SW     bool  `json:"sw"`
}

type Behaviour struct {
	Id  string           `json:"id"`
	Cfg Cfg              `json:"cfg"`
	Ops []map[string]any `json:"ops"`
}

type Root struct {
	Id int `json:"id"`
	Nb int `json:"nb"`
	Na int `json:"na"`
}

type Rec struct {
	Cur  Root `json:"cur"`
	Next Root `json:"next"`
}

type Chain struct {
	Issuer int `json:"issuer"`
	Nb     int `json:"nb"`
	Na     int `json:"na"`
}

type Line struct {
	Tr     string         `json:"tr"`
	I      int            `json:"i"`
	P      map[string]int `json:"p"`
	Op     map[string]any `json:"op"`
	Res    string         `json:"res"`
	Now0   int            `json:"now0"`
	Now1   int            `json:"now1"`
	Pre    Rec            `json:"pre"`
	Post   Rec            `json:"post"`
	Ret    Rec            `json:"ret"`
	Flags  map[string]bool `json:"flags"`
	Chains []Chain        `json:"chains"`
	Unc    bool           `json:"unc"`
	Err    string         `json:"err"`
}

type run struct {
	w      *world.World
	cfg    Cfg
	unit   time.Duration
	fine   time.Duration
	t0     time.Time
	adv    time.Duration
	ids    map[string]int
	mintA  map[int]time.Duration // virtual advance at the time a root was first seen freshly minted
	inject map[int]bool
}

func (r *run) virt(t time.Time) int {
	// (arbitrary precision: an instant may lie more than the 292 years of a time.Duration away)
	total := new(big.Int).Mul(big.NewInt(t.Unix()-r.t0.Unix()), big.NewInt(1e9))
	total.Add(total, big.NewInt(int64(t.Nanosecond()-r.t0.Nanosecond())))
	total.Add(total, big.NewInt(int64(r.adv)))
	q := new(big.Int).Div(total, big.NewInt(int64(r.fine))) // Euclidean division: floor for a positive divisor
	return int(q.Int64())
}

func (r *run) rootId(pub []byte) int {
	if len(pub) == 0 {
		return 0
	}
	k := string(pub)
	if id, ok := r.ids[k]; ok {
		return id
	}
	id := len(r.ids) + 1
	r.ids[k] = id
	return id
}

func (r *run) projRoot(rc *types.RootCertificate) Root {
	if rc == nil {
		return Root{}
	}
	return Root{Id: r.rootId(rc.PublicKeyPkix), Nb: r.virt(rc.NotBefore.AsTime()), Na: r.virt(rc.NotAfter.AsTime())}
}

func (r *run) projRec(rc *types.RootCertificates) Rec {
	if rc == nil {
		return Rec{}
	}
	return Rec{Cur: r.projRoot(rc.Current), Next: r.projRoot(rc.Next)}
}

func (r *run) loadRaw() *types.RootCertificates {
	rc := &types.RootCertificates{Id: nodeenrollment.RootsMessageId}
	if err := r.w.Inner.Load(r.w.Ctx, rc); err != nil {
		return nil
	}
	return rc
}

func num(m map[string]any, k string) int {
	switch v := m[k].(type) {
	case float64:
		return int(v)
	case int:
		return v
	}
	return 0
}

func (r *run) opts(extra ...nodeenrollment.Option) []nodeenrollment.Option {
	return r.w.StorageOpts(append([]nodeenrollment.Option{
		nodeenrollment.WithCertificateLifetime(time.Duration(r.cfg.L) * r.unit),
		nodeenrollment.WithNotBeforeClockSkew(time.Duration(r.cfg.SkNB) * r.unit),
		nodeenrollment.WithNotAfterClockSkew(time.Duration(r.cfg.SkNA) * r.unit),
	}, extra...)...)
}

// certFlags inspects the DER of a root: self-signed CA whose DER window equals
// the proto window (only checkable for roots minted during this trace).
func (r *run) certFlags(rc *types.RootCertificate, flags map[string]bool, name string) {
	if rc == nil {
		return
	}
	c, err := x509.ParseCertificate(rc.CertificateDer)
	if err != nil {
		flags[name+"_parse"] = false
		flags["wellformed"] = false
		return
	}
	ok := c.IsCA && c.BasicConstraintsValid && c.CheckSignatureFrom(c) == nil
	if pub, ok2 := c.PublicKey.(ed25519.PublicKey); ok2 {
		pkix, _ := x509.MarshalPKIXPublicKey(pub)
		if string(pkix) != string(rc.PublicKeyPkix) {
			ok = false
		}
	} else {
		ok = false
	}
	// private key matches public key
	if priv, err := x509.ParsePKCS8PrivateKey(rc.PrivateKeyPkcs8); err == nil {
		if ep, ok3 := priv.(ed25519.PrivateKey); !ok3 || string(ep.Public().(ed25519.PublicKey)) != string(c.PublicKey.(ed25519.PublicKey)) {
			ok = false
		}
	} else {
		ok = false
	}
	id := r.rootId(rc.PublicKeyPkix)
	if a, minted := r.mintA[id]; minted && !r.inject[id] {
		// DER window in virtual coordinates at mint time vs proto window now
		dnb := c.NotBefore.Sub(r.t0) + a
		dna := c.NotAfter.Sub(r.t0) + a
		pnb := rc.NotBefore.AsTime().Sub(r.t0) + r.adv
		pna := rc.NotAfter.AsTime().Sub(r.t0) + r.adv
		tol := 1500 * time.Millisecond
		if (dnb-pnb) > tol || (pnb-dnb) > tol || (dna-pna) > tol || (pna-dna) > tol {
			flags["derEqProto"] = false
		}
	}
	if !ok {
		flags["wellformed"] = false
	}
}

func Run(bh Behaviour, seed int64) ([]Line, error) {
	cfg := bh.Cfg
	if cfg.UnitMs == 0 {
		cfg.UnitMs = 60000
	}
	w, err := world.New(world.Config{Seed: world.Uint64Seed(seed, bh.Id), StorageWrapper: cfg.SW})
	if err != nil {
		return nil, err
	}
	r := &run{w: w, cfg: cfg, unit: time.Duration(cfg.UnitMs) * time.Millisecond, t0: time.Now(), ids: map[string]int{},
		mintA: map[int]time.Duration{}, inject: map[int]bool{}}
	r.fine = r.unit / K
	p := map[string]int{"L": cfg.L * K, "sknb": cfg.SkNB * K, "skna": cfg.SkNA * K, "R": cfg.R * K, "N": cfg.N * K, "K": K}
	var lines []Line
	var chains []Chain
	for i, op := range bh.Ops {
		ln := Line{Tr: bh.Id, I: i + 1, P: p, Op: op, Flags: map[string]bool{"wellformed": true, "derEqProto": true, "leafEqRoot": true, "reload": true, "labels": true}}
		ln.Pre = r.projRec(r.loadRaw())
		ln.Now0 = r.virt(time.Now())
		switch fmt.Sprint(op["op"]) {
		case "Inject":
			r.doInject(op, &ln)
		case "Tick":
			d := time.Duration(num(op, "d")) * r.unit
			if rc := r.loadRaw(); rc != nil {
				for _, x := range []*types.RootCertificate{rc.Current, rc.Next} {
					if x != nil {
						x.NotBefore = timestamppb.New(x.NotBefore.AsTime().Add(-d))
						x.NotAfter = timestamppb.New(x.NotAfter.AsTime().Add(-d))
					}
				}
				if err := w.Inner.Store(w.Ctx, rc); err != nil {
					return nil, err
				}
			}
			r.adv += d
			ln.Res = "ok"
		case "Rotate":
			reinit, _ := op["reinit"].(bool)
			fault, _ := op["fault"].(string)
			if fault == "" {
				fault = "none"
				op["fault"] = fault
			}
			extra := []nodeenrollment.Option{nodeenrollment.WithReinitializeRoots(reinit)}
			if lx := num(op, "Lx"); lx > 0 && lx != cfg.L {
				// this call sees a different certificate lifetime (an operator changed the configuration)
				extra = append(extra, nodeenrollment.WithCertificateLifetime(time.Duration(lx)*r.unit))
				pp := map[string]int{}
				for k, v := range p {
					pp[k] = v
				}
				pp["L"] = lx * K
				ln.P = pp
			}
			skip, _ := op["skip"].(bool)
			op["skip"] = skip
			if skip {
				// the caller asks for the result without having it stored
				extra = append(extra, nodeenrollment.WithSkipStorage(true))
			}
			if fault != "none" {
				w.Rec.Fail = world.FaultGeneric
				w.Rec.FailType = "RootCertificates"
				w.Rec.FailOp = map[string]string{"remove": "Remove", "load": "Load", "store": "Store"}[fault]
			}
			t0 := time.Now()
			ret, err := rotation.RotateRootCertificates(w.Ctx, w.Store, r.opts(extra...)...)
			w.Rec.FailOp = ""
			if time.Since(t0) > 200*r.fine && time.Since(t0) > 50*time.Millisecond {
				ln.Unc = true
			}
			if err != nil {
				ln.Res = "error"
				ln.Err = err.Error()
			} else {
				ln.Res = "ok"
				ln.Ret = r.projRec(ret)
				// roots first seen now were minted by this call
				for _, x := range []*types.RootCertificate{ret.Current, ret.Next} {
					if x != nil {
						id := r.rootId(x.PublicKeyPkix)
						if _, seen := r.mintA[id]; !seen {
							r.mintA[id] = r.adv
						}
					}
				}
				r.certFlags(ret.Current, ln.Flags, "cur")
				r.certFlags(ret.Next, ln.Flags, "next")
				// the two roots are LABELLED current and next, in the return value as in storage
				if ret.Current == nil || ret.Next == nil || ret.Current.Id != string(nodeenrollment.CurrentId) || ret.Next.Id != string(nodeenrollment.NextId) {
					ln.Flags["labels"] = false
				}
				if raw := r.loadRaw(); raw != nil && !skip && (raw.Current == nil || raw.Next == nil || raw.Current.Id != string(nodeenrollment.CurrentId) || raw.Next.Id != string(nodeenrollment.NextId)) {
					ln.Flags["labels"] = false
				}
				// what is stored must load with the same wrapper and carry usable keys
				if skip {
					// nothing is stored by design
				} else if st, err := types.LoadRootCertificates(w.Ctx, w.Inner, w.StorageOpts()...); err != nil {
					ln.Flags["reload"] = false
				} else {
					ln.Flags["reload"] = true
					r.certFlags(st.Current, ln.Flags, "scur")
					r.certFlags(st.Next, ln.Flags, "snext")
				}
			}
		case "Enroll":
			chains = r.doEnroll(&ln)
		default:
			return nil, fmt.Errorf("unknown op %v", op["op"])
		}
		ln.Now1 = r.virt(time.Now())
		ln.Post = r.projRec(r.loadRaw())
		ln.Chains = append([]Chain{}, chains...)
		lines = append(lines, ln)
	}
	return lines, nil
}

func (r *run) doInject(op map[string]any, ln *Line) {
	w := r.w
	// mint a real pair first, then rewrite its windows
	if _, err := rotation.RotateRootCertificates(w.Ctx, w.Store, r.opts(nodeenrollment.WithReinitializeRoots(true))...); err != nil {
		panic(err)
	}
	rc := r.loadRaw()
	now := time.Now()
	set := func(x *types.RootCertificate, m map[string]any) *types.RootCertificate {
		if m == nil {
			return nil
		}
		if pres, _ := m["present"].(bool); !pres {
			return nil
		}
		x.NotBefore = timestamppb.New(now.Add(time.Duration(num(m, "nb")) * r.unit))
		x.NotAfter = timestamppb.New(now.Add(time.Duration(num(m, "na")) * r.unit))
		r.inject[r.rootId(x.PublicKeyPkix)] = true
		return x
	}
	cm, _ := op["cur"].(map[string]any)
	nm, _ := op["next"].(map[string]any)
	rc.Current = set(rc.Current, cm)
	rc.Next = set(rc.Next, nm)
	if rc.Current == nil && rc.Next == nil {
		if err := w.Inner.Remove(w.Ctx, rc); err != nil {
			panic(err)
		}
	} else if err := w.Inner.Store(w.Ctx, rc); err != nil {
		panic(err)
	}
	ln.Res = "ok"
}

// doEnroll authorises a fresh node with the real code and returns its chains in
// virtual coordinates: issuing root's virtual window corrected by the
// difference between leaf and CA validity in the DER.
func (r *run) doEnroll(ln *Line) []Chain {
	w := r.w
	pub, priv, _ := ed25519.GenerateKey(rand.Reader)
	_ = pub
	name := fmt.Sprintf("kn%d", ln.I)
	ck := w.EnsureCertKey(name)
	_ = priv
	req, err := w.BuildFetch(world.FetchSpec{K: ck.Name, E: "e1", Nonce: "n1"})
	if err != nil {
		panic(err)
	}
	ni, err := registration.AuthorizeNode(w.Ctx, w.Store, req, w.StorageOpts()...)
	if err != nil {
		ln.Res = "error"
		ln.Err = err.Error()
		return nil
	}
	ln.Res = "ok"
	stored := r.loadRaw()
	var out []Chain
	for _, b := range ni.CertificateBundles {
		leaf, err1 := x509.ParseCertificate(b.CertificateDer)
		ca, err2 := x509.ParseCertificate(b.CaCertificateDer)
		if err1 != nil || err2 != nil {
			out = append(out, Chain{Issuer: -1})
			continue
		}
		pkix, _ := x509.MarshalPKIXPublicKey(ca.PublicKey)
		id := r.rootId(pkix)
		var root *types.RootCertificate
		for _, x := range []*types.RootCertificate{stored.GetCurrent(), stored.GetNext()} {
			if x != nil && string(x.PublicKeyPkix) == string(pkix) {
				root = x
			}
		}
		if root == nil || leaf.CheckSignatureFrom(ca) != nil {
			out = append(out, Chain{Issuer: -1})
			continue
		}
		rv := r.projRoot(root)
		dnb := int(leaf.NotBefore.Sub(ca.NotBefore) / r.fine)
		dna := int(leaf.NotAfter.Sub(ca.NotAfter) / r.fine)
		if dnb != 0 || dna != 0 {
			ln.Flags["leafEqRoot"] = false
		}
		out = append(out, Chain{Issuer: id, Nb: rv.Nb + dnb, Na: rv.Na + dna})
	}
	return out
}

func MarshalLines(lines []Line) ([]byte, error) {
	var sb strings.Builder
	for _, l := range lines {
		b, err := json.Marshal(l)
		if err != nil {
			return nil, err
		}
		sb.Write(b)
		sb.WriteByte('\n')
	}
	return []byte(sb.String()), nil
}

var _ = errors.New
