// Package enrol runs complete honest enrolments in every flow x storage back
// end x wrapper configuration and inspects everything the property C04 names:
// the response binding, the issued certificates, the stored record, the
// node-side refusal of substituted responses, and a real dial afterwards.
package enrol

import (
	"time"
	"bytes"
	"crypto/ed25519"
	"crypto/rand"
	"crypto/x509"
	"fmt"

	"github.com/hashicorp/nodeenrollment"
	"github.com/hashicorp/nodeenrollment/registration"
	"github.com/hashicorp/nodeenrollment/storage/file"
	"github.com/hashicorp/nodeenrollment/storage/inmem"
	teststore "github.com/hashicorp/nodeenrollment/storage/testing"
	nodetls "github.com/hashicorp/nodeenrollment/tls"
	"github.com/hashicorp/nodeenrollment/types"
	"google.golang.org/protobuf/proto"
	"google.golang.org/protobuf/types/known/structpb"

	"verifharness/hs"
	"verifharness/world"
)

type Behaviour struct {
	Id  string           `json:"id"`
	Ops []map[string]any `json:"ops"`
}

type Obs struct {
	Issued      bool   `json:"issued"`
	OpensRight  bool   `json:"opensRight"`
	OpensOther  bool   `json:"opensOther"`
	Echo        bool   `json:"echo"`
	SigCur      bool   `json:"sigCur"`
	Chains      int    `json:"chains"`
	ChainRoots  bool   `json:"chainRoots"` // bundle i is issued by root i (current, next)
	CertsOK     bool   `json:"certsOK"`
	CertDefect  string `json:"certDefect"`
	StoredEq    bool   `json:"storedEq"`
	StateOK     bool   `json:"stateOK"`
	HandleOK    bool   `json:"handleOK"`
	Refused     bool   `json:"refused"`
	ClientConfs int    `json:"clientConfs"`
	DialOK      bool   `json:"dialOK"`
	// second stage (op.rekey): the same identity fetches again with a replaced encryption key and a new nonce
	ReIssued     bool `json:"reIssued"`
	ReOpensRight bool `json:"reOpensRight"`
	ReOpensOld   bool `json:"reOpensOld"`
	ReEcho       bool `json:"reEcho"`
	ReStoredEq   bool `json:"reStoredEq"`
	// third stage (op.reroot): the server's roots are replaced, the node fetches again with the SAME credentials
	RrIssued     bool `json:"rrIssued"`
	RrOpens      bool `json:"rrOpens"`
	RrSigCur     bool `json:"rrSigCur"`
	RrChainRoots bool `json:"rrChainRoots"`
	Msg          string `json:"msg"`
}

type Line struct {
	Tr  string         `json:"tr"`
	I   int            `json:"i"`
	Op  map[string]any `json:"op"`
	Res string         `json:"res"`
	Obs Obs            `json:"obs"`
}

func str(m map[string]any, k string) string {
	if v, ok := m[k].(string); ok {
		return v
	}
	return "none"
}
func boolean(m map[string]any, k string) bool { v, ok := m[k].(bool); return ok && v }

func backend(name string, w *world.World) (nodeenrollment.Storage, func(), error) {
	switch name {
	case "file":
		s, err := file.New(w.Ctx)
		if err != nil {
			return nil, nil, err
		}
		return s, func() { _ = s.Cleanup(w.Ctx) }, nil
	case "storeonce":
		s, err := teststore.New(w.Ctx)
		return s, func() {}, err
	}
	s, err := inmem.New(w.Ctx)
	return s, func() {}, err
}

func certDefect(leafDer, caDer []byte, nodePub ed25519.PublicKey, pkix []byte, keyId string) string {
	leaf, err := x509.ParseCertificate(leafDer)
	if err != nil {
		return "leaf-unparseable"
	}
	ca, err := x509.ParseCertificate(caDer)
	if err != nil {
		return "ca-unparseable"
	}
	switch {
	case leaf.IsCA:
		return "leaf-is-ca"
	case len(leaf.ExtKeyUsage) != 1 || leaf.ExtKeyUsage[0] != x509.ExtKeyUsageClientAuth:
		return "leaf-eku-not-client-auth-only"
	case leaf.KeyUsage&x509.KeyUsageCertSign != 0:
		return "leaf-can-sign-certificates"
	}
	pub, ok := leaf.PublicKey.(ed25519.PublicKey)
	if !ok || !bytes.Equal(pub, nodePub) || !bytes.Equal(leaf.SubjectKeyId, pkix) {
		return "leaf-not-for-node-key"
	}
	named := leaf.Subject.CommonName == keyId
	inDns := false
	for _, d := range leaf.DNSNames {
		if d == keyId {
			inDns = true
		}
	}
	switch {
	case !named || !inDns:
		return "leaf-not-named-by-key-id"
	case leaf.NotBefore.Before(ca.NotBefore) || leaf.NotAfter.After(ca.NotAfter):
		return "leaf-valid-longer-than-issuing-root"
	case leaf.CheckSignatureFrom(ca) != nil:
		return "leaf-not-signed-by-its-ca"
	case !ca.IsCA:
		return "ca-not-ca"
	}
	return ""
}

func Run(bh Behaviour, seed int64) ([]Line, error) {
	var lines []Line
	for i, op := range bh.Ops {
		ln := Line{Tr: bh.Id, I: i + 1, Op: op}
		func() {
			defer func() {
				if p := recover(); p != nil {
					ln.Res = "panic"
					ln.Obs.Msg = fmt.Sprint(p)
				}
			}()
			one(op, &ln, world.Uint64Seed(seed, fmt.Sprintf("%s/%d", bh.Id, i)))
		}()
		lines = append(lines, ln)
	}
	return lines, nil
}

func one(op map[string]any, ln *Line, seed int64) {
	flow, be, sw, subst := str(op, "flow"), str(op, "backend"), boolean(op, "sw"), str(op, "subst")
	stateName := str(op, "state")
	// world first (keys, wrappers), then the server over the chosen back end
	w0, err := world.New(world.Config{Seed: seed})
	if err != nil {
		panic(err)
	}
	inner, cleanup, err := backend(be, w0)
	if err != nil {
		panic(err)
	}
	defer cleanup()
	scfg := hs.ServerConfig{Seed: seed, StorageWrapper: sw, Inner: inner}
	curExpired := str(op, "roots") == "curExpired"
	if curExpired {
		// short-lived roots, rotated lazily: the enrolment happens after the current root has expired and before the
		// operator's next rotation call (the next root is valid for another five seconds)
		scfg.Lifetime = 10 * time.Second
		scfg.RootOpts = []nodeenrollment.Option{nodeenrollment.WithNotAfterClockSkew(0)}
	}
	srv, err := hs.NewServer(scfg)
	if err != nil {
		ln.Res, ln.Obs.Msg = "setup-error", err.Error()
		return
	}
	defer srv.Close()
	w := srv.W
	ctx := w.Ctx
	var judgeBy time.Time
	if curExpired {
		r0, err := types.LoadRootCertificates(ctx, w.Inner, w.StorageOpts()...)
		if err != nil {
			ln.Res, ln.Obs.Msg = "setup-error", err.Error()
			return
		}
		time.Sleep(time.Until(r0.Current.NotAfter.AsTime().Add(1200 * time.Millisecond)))
		judgeBy = r0.Next.NotAfter.AsTime().Add(-1200 * time.Millisecond)
		defer func() {
			// too slow: the next root has (nearly) expired as well, nothing can be concluded from this run
			if time.Now().After(judgeBy) {
				ln.Res, ln.Obs.Msg = "setup-error", "run outlasted the validity of the next root"
			}
		}()
	}
	var state *structpb.Struct
	if stateName != "none" {
		state = w.States[stateName]
	}
	so := w.StorageOpts
	nodeStore, _ := inmem.New(ctx)
	var nodeOpts []nodeenrollment.Option
	if sw {
		nodeOpts = append(nodeOpts, nodeenrollment.WithStorageWrapper(w.Wrappers["SX"]))
	}
	var tokenStr string
	if flow == "token" {
		var topts []nodeenrollment.Option
		if state != nil {
			topts = append(topts, nodeenrollment.WithState(state))
		}
		_, tokenStr, err = registration.CreateServerLedActivationToken(ctx, w.Store, &types.ServerLedRegistrationRequest{}, so(topts...)...)
		if err != nil {
			ln.Res, ln.Obs.Msg = "setup-error", err.Error()
			return
		}
	}
	credOpts := append([]nodeenrollment.Option{}, nodeOpts...)
	if tokenStr != "" {
		credOpts = append(credOpts, nodeenrollment.WithActivationToken(tokenStr))
	}
	creds, err := types.NewNodeCredentials(ctx, nodeStore, credOpts...)
	if err != nil {
		ln.Res, ln.Obs.Msg = "error", "new creds: "+err.Error()
		return
	}
	reqOpts := append([]nodeenrollment.Option{}, credOpts...)
	var params *structpb.Struct
	if boolean(op, "params") {
		params, _ = structpb.NewStruct(map[string]any{"region": "eu", "tags": []any{"a", "b"}})
		reqOpts = append(reqOpts, nodeenrollment.WithWrappingRegistrationFlowApplicationSpecificParams(params))
	}
	serverOpts := so()
	if boolean(op, "lifeOpt") {
		// the application hands the same option list (with its certificate lifetime) to every call; the roots are at least
		// a second old by now, so a leaf computed from "now + lifetime" would outlive its issuing root
		time.Sleep(1200 * time.Millisecond)
		serverOpts = so(nodeenrollment.WithCertificateLifetime(nodeenrollment.DefaultCertificateLifetime + time.Hour))
	}
	switch flow {
	case "wrapped":
		reqOpts = append(reqOpts, nodeenrollment.WithRegistrationWrapper(w.Wrappers["W1"]))
		serverOpts = append(serverOpts, nodeenrollment.WithRegistrationWrapper(w.Wrappers["W1"]))
	case "rewrapped":
		reqOpts = append(reqOpts, nodeenrollment.WithRegistrationWrapper(w.Wrappers["W2"])) // known to the intermediate only
	}
	req, err := creds.CreateFetchNodeCredentialsRequest(ctx, reqOpts...)
	if err != nil {
		ln.Res, ln.Obs.Msg = "error", "create request: "+err.Error()
		return
	}
	var reqInfo types.FetchNodeCredentialsInfo
	_ = proto.Unmarshal(req.Bundle, &reqInfo)
	switch flow {
	case "operator":
		var aopts []nodeenrollment.Option
		if state != nil {
			aopts = append(aopts, nodeenrollment.WithState(state))
		}
		if boolean(op, "lifeOpt") {
			aopts = append(aopts, nodeenrollment.WithCertificateLifetime(nodeenrollment.DefaultCertificateLifetime + time.Hour))
		}
		if _, err := registration.AuthorizeNode(ctx, w.Store, req, so(aopts...)...); err != nil {
			ln.Res, ln.Obs.Msg = "error", "authorize: "+err.Error()
			return
		}
	case "rewrapped":
		// an already registered intermediate node unwraps the registration info and re-seals it to the server
		mid, err := srv.Enroll("kmid", nil)
		if err != nil {
			ln.Res, ln.Obs.Msg = "setup-error", "intermediate: "+err.Error()
			return
		}
		regInfo, err := registration.DecryptWrappedRegistrationInfo(ctx, &reqInfo, nodeenrollment.WithRegistrationWrapper(w.Wrappers["W2"]))
		if err != nil {
			ln.Res, ln.Obs.Msg = "error", "intermediate unwrap: "+err.Error()
			return
		}
		ct, err := nodeenrollment.EncryptMessage(ctx, regInfo, mid.Creds)
		if err != nil {
			ln.Res, ln.Obs.Msg = "error", "intermediate rewrap: "+err.Error()
			return
		}
		req.RewrappedWrappingRegistrationFlowInfo = ct
		req.RewrappingKeyId = w.CertKeys["kmid"].KeyId
	}
	var fopts []nodeenrollment.Option
	if state != nil && (flow == "wrapped" || flow == "rewrapped") {
		fopts = append(fopts, nodeenrollment.WithState(state))
	}
	resp, err := registration.FetchNodeCredentials(ctx, w.Store, req, append(serverOpts, fopts...)...)
	if err != nil || resp == nil || len(resp.EncryptedNodeCredentials) == 0 {
		ln.Res = "not-issued"
		if err != nil {
			ln.Obs.Msg = err.Error()
		}
		return
	}
	ln.Obs.Issued = true

	// ---- response binding ----
	privRaw, _ := x509.ParsePKCS8PrivateKey(creds.CertificatePrivateKeyPkcs8)
	nodePub := privRaw.(ed25519.PrivateKey).Public().(ed25519.PublicKey)
	_, keyId, _ := nodeenrollment.SubjectKeyInfoAndKeyIdFromPubKey(nodePub)
	open := func(encPriv []byte) (*types.NodeCredentials, bool) {
		nc := &types.NodeCredentials{CertificatePublicKeyPkix: creds.CertificatePublicKeyPkix, EncryptionPrivateKeyBytes: encPriv, EncryptionPrivateKeyType: types.KEYTYPE_X25519,
			ServerEncryptionPublicKeyBytes: resp.ServerEncryptionPublicKeyBytes, ServerEncryptionPublicKeyType: resp.ServerEncryptionPublicKeyType}
		out := new(types.NodeCredentials)
		return out, nodeenrollment.DecryptMessage(ctx, resp.EncryptedNodeCredentials, nc, out) == nil
	}
	inside, ok := open(creds.EncryptionPrivateKeyBytes)
	ln.Obs.OpensRight = ok
	for _, n := range []string{"e1", "e2"} {
		if _, o := open(w.EncKeys[n].Priv); o {
			ln.Obs.OpensOther = true
		}
	}
	ln.Obs.Echo = ok && bytes.Equal(inside.RegistrationNonce, reqInfo.Nonce)
	roots, rerr := types.LoadRootCertificates(ctx, w.Inner, so()...)
	if rerr == nil {
		curPub, _ := x509.ParsePKIXPublicKey(roots.Current.PublicKeyPkix)
		ln.Obs.SigCur = ed25519.Verify(curPub.(ed25519.PublicKey), resp.EncryptedNodeCredentials, resp.EncryptedNodeCredentialsSignature)
	}
	if ok {
		ln.Obs.Chains = len(inside.CertificateBundles)
		ln.Obs.CertsOK = true
		ln.Obs.ChainRoots = rerr == nil && len(inside.CertificateBundles) == 2 &&
			bytes.Equal(inside.CertificateBundles[0].CaCertificateDer, roots.Current.CertificateDer) &&
			bytes.Equal(inside.CertificateBundles[1].CaCertificateDer, roots.Next.CertificateDer)
		for _, b := range inside.CertificateBundles {
			if d := certDefect(b.CertificateDer, b.CaCertificateDer, nodePub, creds.CertificatePublicKeyPkix, keyId); d != "" {
				ln.Obs.CertsOK = false
				ln.Obs.CertDefect = d
			}
		}
	}
	// ---- stored record equals what was used for the response ----
	rec, lerr := types.LoadNodeInformation(ctx, w.Inner, keyId, so()...)
	if lerr == nil && ok {
		eq := bytes.Equal(rec.RegistrationNonce, inside.RegistrationNonce) && bytes.Equal(rec.EncryptionPublicKeyBytes, reqInfo.EncryptionPublicKeyBytes) &&
			bytes.Equal(rec.CertificatePublicKeyPkix, creds.CertificatePublicKeyPkix) && len(rec.CertificateBundles) == len(inside.CertificateBundles)
		if eq {
			for j := range rec.CertificateBundles {
				if !bytes.Equal(rec.CertificateBundles[j].CertificateDer, inside.CertificateBundles[j].CertificateDer) {
					eq = false
				}
			}
		}
		// the record's server key is the one the response was encrypted with
		if _, o := open(creds.EncryptionPrivateKeyBytes); o {
			_, shared, kerr := rec.X25519EncryptionKey()
			_, nodeShared, nerr := (&types.NodeCredentials{CertificatePublicKeyPkix: creds.CertificatePublicKeyPkix, EncryptionPrivateKeyBytes: creds.EncryptionPrivateKeyBytes,
				EncryptionPrivateKeyType: types.KEYTYPE_X25519, ServerEncryptionPublicKeyBytes: resp.ServerEncryptionPublicKeyBytes, ServerEncryptionPublicKeyType: types.KEYTYPE_X25519}).X25519EncryptionKey()
			if kerr != nil || nerr != nil || !bytes.Equal(shared, nodeShared) {
				eq = false
			}
		}
		ln.Obs.StoredEq = eq
		ln.Obs.StateOK = (state == nil && rec.State == nil) || (state != nil && rec.State != nil && proto.Equal(state, rec.State))
	}

	// ---- node side ----
	handleOpts := append([]nodeenrollment.Option{}, credOpts...)
	subject := creds
	respUse := proto.Clone(resp).(*types.FetchNodeCredentialsResponse)
	switch subst {
	case "wrongKey":
		subject = proto.Clone(creds).(*types.NodeCredentials)
		subject.EncryptionPrivateKeyBytes = w.EncKeys["e2"].Priv
	case "tamper":
		respUse.EncryptedNodeCredentials[len(respUse.EncryptedNodeCredentials)/2] ^= 0x10
	case "wrongServerPub":
		respUse.ServerEncryptionPublicKeyBytes = w.EncKeys["e1"].Pub
	case "nonce32", "nonceToken", "swapBundles":
		// a response that decrypts under the node's key but whose fields were substituted
		forged := proto.Clone(inside).(*types.NodeCredentials)
		switch subst {
		case "nonce32":
			forged.RegistrationNonce = make([]byte, nodeenrollment.NonceSize)
			rand.Read(forged.RegistrationNonce)
		case "nonceToken":
			other, _ := proto.Marshal(&types.ServerLedActivationTokenNonce{Nonce: bytes.Repeat([]byte{7}, 32), HmacKeyBytes: bytes.Repeat([]byte{9}, 32)})
			forged.RegistrationNonce = other
		case "swapBundles":
			forged.RegistrationNonce = append([]byte{1}, forged.RegistrationNonce...)
			forged.CertificateBundles = []*types.CertificateBundle{forged.CertificateBundles[1], forged.CertificateBundles[0]}
		}
		if lerr != nil {
			ln.Res, ln.Obs.Msg = "setup-error", "no record to forge with"
			return
		}
		ct, eerr := nodeenrollment.EncryptMessage(ctx, forged, rec)
		if eerr != nil {
			ln.Res, ln.Obs.Msg = "setup-error", eerr.Error()
			return
		}
		respUse.EncryptedNodeCredentials = ct
	}
	// the node's credentials as they were before activation (a machine image with pre-generated credentials relaunched)
	credsBefore := proto.Clone(creds).(*types.NodeCredentials)
	_, herr := subject.HandleFetchNodeCredentialsResponse(ctx, nodeStore, respUse, handleOpts...)
	if subst != "none" {
		ln.Obs.Refused = herr != nil
		ln.Res = "subst"
		return
	}
	ln.Obs.HandleOK = herr == nil
	if herr != nil {
		ln.Obs.Msg = "handle: " + herr.Error()
		ln.Res = "issued"
		return
	}
	stored, serr := types.LoadNodeCredentials(ctx, nodeStore, nodeenrollment.CurrentId, nodeOpts...)
	if serr == nil {
		confs, cerr := nodetls.ClientConfigs(ctx, stored)
		if cerr == nil {
			ln.Obs.ClientConfs = len(confs)
		}
	}
	// a real dial with the stored credentials
	srv.Nodes["hon"] = &hs.Node{Name: "hon", Storage: nodeStore, Creds: creds, Fresh: true}
	results, conn, derr := srv.HonestDial("hon", nodeOpts...)
	for _, r := range results {
		if r.Kind == "auth" {
			ln.Obs.DialOK = derr == nil
		}
		if r.Conn != nil {
			r.Conn.Close()
		}
	}
	if conn != nil {
		conn.Close()
	}
	if derr != nil {
		ln.Obs.Msg = "dial: " + derr.Error()
	}
	ln.Res = "issued"
	if boolean(op, "reroot") && (flow == "wrapped" || flow == "rewrapped") && be != "storeonce" {
		// ---- the server's roots are replaced; the node registers again with the very same credentials ----
		if err := srv.ReinitRoots(); err != nil {
			ln.Obs.Msg = "reinit: " + err.Error()
			return
		}
		req3, err := credsBefore.CreateFetchNodeCredentialsRequest(ctx, reqOpts...)
		if err != nil {
			ln.Obs.Msg = "third request: " + err.Error()
			return
		}
		if flow == "rewrapped" {
			// the intermediate's own record is still there (records are not tied to roots)
			var info3 types.FetchNodeCredentialsInfo
			_ = proto.Unmarshal(req3.Bundle, &info3)
			regInfo, err := registration.DecryptWrappedRegistrationInfo(ctx, &info3, nodeenrollment.WithRegistrationWrapper(w.Wrappers["W2"]))
			if err != nil {
				ln.Obs.Msg = "third unwrap: " + err.Error()
				return
			}
			ct, err := nodeenrollment.EncryptMessage(ctx, regInfo, srv.Nodes["kmid"].Creds)
			if err != nil {
				ln.Obs.Msg = "third rewrap: " + err.Error()
				return
			}
			req3.RewrappedWrappingRegistrationFlowInfo = ct
			req3.RewrappingKeyId = w.CertKeys["kmid"].KeyId
		}
		resp3, err := registration.FetchNodeCredentials(ctx, w.Store, req3, append(serverOpts, fopts...)...)
		if err != nil || resp3 == nil || len(resp3.EncryptedNodeCredentials) == 0 {
			return // refusing is allowed
		}
		ln.Obs.RrIssued = true
		nc := &types.NodeCredentials{CertificatePublicKeyPkix: creds.CertificatePublicKeyPkix, EncryptionPrivateKeyBytes: creds.EncryptionPrivateKeyBytes, EncryptionPrivateKeyType: types.KEYTYPE_X25519,
			ServerEncryptionPublicKeyBytes: resp3.ServerEncryptionPublicKeyBytes, ServerEncryptionPublicKeyType: resp3.ServerEncryptionPublicKeyType}
		in3 := new(types.NodeCredentials)
		ln.Obs.RrOpens = nodeenrollment.DecryptMessage(ctx, resp3.EncryptedNodeCredentials, nc, in3) == nil
		if roots3, err := types.LoadRootCertificates(ctx, w.Inner, so()...); err == nil {
			curPub, _ := x509.ParsePKIXPublicKey(roots3.Current.PublicKeyPkix)
			ln.Obs.RrSigCur = ed25519.Verify(curPub.(ed25519.PublicKey), resp3.EncryptedNodeCredentials, resp3.EncryptedNodeCredentialsSignature)
			ln.Obs.RrChainRoots = ln.Obs.RrOpens && len(in3.CertificateBundles) == 2 &&
				bytes.Equal(in3.CertificateBundles[0].CaCertificateDer, roots3.Current.CertificateDer) &&
				bytes.Equal(in3.CertificateBundles[1].CaCertificateDer, roots3.Next.CertificateDer)
		}
		return
	}
	if !boolean(op, "rekey") || (flow != "wrapped" && flow != "rewrapped") {
		return
	}
	// ---- the node replaced its encryption key: a second, validly signed fetch of the same identity ----
	creds2 := proto.Clone(creds).(*types.NodeCredentials)
	creds2.EncryptionPrivateKeyBytes = w.EncKeys["e2"].Priv
	creds2.RegistrationNonce = make([]byte, nodeenrollment.NonceSize)
	rand.Read(creds2.RegistrationNonce)
	req2, err := creds2.CreateFetchNodeCredentialsRequest(ctx, reqOpts...)
	if err != nil {
		ln.Obs.Msg = "second request: " + err.Error()
		return
	}
	var reqInfo2 types.FetchNodeCredentialsInfo
	_ = proto.Unmarshal(req2.Bundle, &reqInfo2)
	if flow == "rewrapped" {
		regInfo, err := registration.DecryptWrappedRegistrationInfo(ctx, &reqInfo2, nodeenrollment.WithRegistrationWrapper(w.Wrappers["W2"]))
		if err != nil {
			ln.Obs.Msg = "second unwrap: " + err.Error()
			return
		}
		ct, err := nodeenrollment.EncryptMessage(ctx, regInfo, srv.Nodes["kmid"].Creds)
		if err != nil {
			ln.Obs.Msg = "second rewrap: " + err.Error()
			return
		}
		req2.RewrappedWrappingRegistrationFlowInfo = ct
		req2.RewrappingKeyId = w.CertKeys["kmid"].KeyId
	}
	resp2, err := registration.FetchNodeCredentials(ctx, w.Store, req2, append(serverOpts, fopts...)...)
	if err != nil || resp2 == nil || len(resp2.EncryptedNodeCredentials) == 0 {
		return // refusing is allowed; answering with something bound to another key is not
	}
	ln.Obs.ReIssued = true
	open2 := func(encPriv []byte) (*types.NodeCredentials, bool) {
		nc := &types.NodeCredentials{CertificatePublicKeyPkix: creds.CertificatePublicKeyPkix, EncryptionPrivateKeyBytes: encPriv, EncryptionPrivateKeyType: types.KEYTYPE_X25519,
			ServerEncryptionPublicKeyBytes: resp2.ServerEncryptionPublicKeyBytes, ServerEncryptionPublicKeyType: resp2.ServerEncryptionPublicKeyType}
		out := new(types.NodeCredentials)
		return out, nodeenrollment.DecryptMessage(ctx, resp2.EncryptedNodeCredentials, nc, out) == nil
	}
	inside2, ok2 := open2(creds2.EncryptionPrivateKeyBytes)
	ln.Obs.ReOpensRight = ok2
	_, ln.Obs.ReOpensOld = open2(creds.EncryptionPrivateKeyBytes)
	ln.Obs.ReEcho = ok2 && bytes.Equal(inside2.RegistrationNonce, reqInfo2.Nonce)
	if rec2, err := types.LoadNodeInformation(ctx, w.Inner, keyId, so()...); err == nil {
		ln.Obs.ReStoredEq = bytes.Equal(rec2.EncryptionPublicKeyBytes, reqInfo2.EncryptionPublicKeyBytes) && bytes.Equal(rec2.RegistrationNonce, reqInfo2.Nonce)
	}
}
