// Package reg replays abstract Registry.tla behaviours on the real library
// (registration, rotation/node, tls/server) and records, per step, the
// observed result class and the projection of real server storage before
// and after the call.  The recorded trace is judged by RegistryTrace.tla.
package reg

import (
	"sync"
	"io"
	hclog "github.com/hashicorp/go-hclog"
	"context"
	"crypto/ecdh"
	"crypto/ecdsa"
	"crypto/ed25519"
	"crypto/elliptic"
	"crypto/hmac"
	"crypto/rand"
	"crypto/sha256"
	"crypto/x509"
	"encoding/json"
	"errors"
	"fmt"
	"sort"
	"strings"
	"time"

	"github.com/hashicorp/nodeenrollment"
	"github.com/hashicorp/nodeenrollment/registration"
	"github.com/hashicorp/nodeenrollment/rotation"
	"github.com/hashicorp/nodeenrollment/storage/inmem"
	"github.com/hashicorp/nodeenrollment/storage/file"
	teststore "github.com/hashicorp/nodeenrollment/storage/testing"
	nodetls "github.com/hashicorp/nodeenrollment/tls"
	"github.com/hashicorp/nodeenrollment/types"
	"github.com/mr-tron/base58"
	"google.golang.org/protobuf/proto"
	"google.golang.org/protobuf/types/known/timestamppb"

	"verifharness/world"
)

const ageMargin = 250 * time.Millisecond

type Cfg struct {
	SW       bool     `json:"sw"`
	Nidl     bool     `json:"nidl"`
	SO       bool     `json:"so"`   // store-once back end
	NidE     bool     `json:"nide"` // node-id lookups answer unknown ids with an empty set instead of not-found
	BE       string   `json:"be"`   // server storage back end: "" / inmem | file
	RmErr    bool     `json:"rmerr"`
	CertKeys []string `json:"certKeys"`
	Tokens   []string `json:"tokens"`
}

type Behaviour struct {
	Id  string           `json:"id"`
	Cfg Cfg              `json:"cfg"`
	Ops []map[string]any `json:"ops"`
}

// St is the abstract registry state as the spec sees it.
type St struct {
	Nodes  map[string]NodeSt        `json:"nodes"`
	Tokens map[string]world.TokProj `json:"tokens"`
	Regw   string                   `json:"regw"`
	Gen    int                      `json:"gen"`
}

type NodeSt struct {
	Present bool   `json:"present"`
	Nonce   string `json:"nonce"`
	Enc     string `json:"enc"`
	State   string `json:"state"`
	Srv     int    `json:"srv"`
	Nid     string `json:"nid"`
	PrevK   string `json:"prevk"`
	PrevSrv int    `json:"prevsrv"`
	PrevEnc string `json:"prevenc"`
	Kt      string `json:"kt"`
}

type Line struct {
	Tr     string         `json:"tr"`
	I      int            `json:"i"`
	Cfg    map[string]any `json:"cfg"`
	Op     map[string]any `json:"op"`
	Res    string         `json:"res"`
	Pre    St             `json:"pre"`
	Post   St             `json:"post"`
	Writes int            `json:"writes"`
	Unc    bool           `json:"unc"` // timing-uncertain step: not judged
	Obs    map[string]any `json:"obs"` // extra observations (always present, possibly with defaults)
	Err    string         `json:"err"`
	Panic  string         `json:"panic"`
}

type run struct {
	lastNonce []byte
	w   *world.World
	cfg Cfg
}

func s(m map[string]any, k string) string {
	v, ok := m[k]
	if !ok {
		return world.None
	}
	if str, ok := v.(string); ok {
		return str
	}
	return fmt.Sprint(v)
}

func b(m map[string]any, k string) bool {
	v, ok := m[k].(bool)
	return ok && v
}

func num(m map[string]any, k string) int {
	switch v := m[k].(type) {
	case float64:
		return int(v)
	case int:
		return v
	}
	return 0
}

func strs(m map[string]any, k string) []string {
	var out []string
	if arr, ok := m[k].([]any); ok {
		for _, x := range arr {
			out = append(out, fmt.Sprint(x))
		}
	}
	return out
}

func (r *run) state() St {
	r.w.ObserveKeys(r.cfg.CertKeys)
	p := r.w.Project(r.cfg.CertKeys, r.cfg.Tokens)
	st := St{Nodes: map[string]NodeSt{}, Tokens: map[string]world.TokProj{}, Regw: p.Regw}
	for k, n := range p.Nodes {
		st.Nodes[k] = NodeSt{Present: n.Present, Nonce: n.Nonce, Enc: n.Enc, State: n.State, Srv: n.Srv, Nid: n.Nid,
			PrevK: n.PrevK, PrevSrv: n.PrevSrv, PrevEnc: n.PrevEnc, Kt: n.Kt}
		if n.Srv > st.Gen {
			st.Gen = n.Srv
		}
	}
	if g := r.w.SrvGenCount(); g > st.Gen {
		st.Gen = g
	}
	for _, tn := range r.cfg.Tokens {
		tp := world.TokProj{St: "unborn", State: world.None}
		if t, ok := r.w.Tokens[tn]; ok && t.Stored {
			te, err := types.LoadServerLedActivationToken(r.w.Ctx, r.w.Inner, t.Id, r.w.ObsOpts()...)
			switch {
			case err == nil:
				if !r.w.AgeBoundary.IsZero() && !te.CreationTime.AsTime().After(r.w.AgeBoundary) {
					tp.St = "old"
				} else {
					tp.St = "fresh"
				}
				tp.State = r.w.StateName(te.State)
			case errors.Is(err, nodeenrollment.ErrNotFound):
				tp.St = "gone"
			default:
				tp.St = "broken"
				raw := &types.ServerLedActivationToken{Id: t.Id}
				if r.w.Inner.Load(r.w.Ctx, raw) == nil {
					tp.State = r.w.StateName(raw.State)
				}
			}
		}
		st.Tokens[tn] = tp
	}
	return st
}

// Run executes one behaviour on a fresh world.
func Run(bh Behaviour, seed int64) ([]Line, error) {
	if len(bh.Cfg.CertKeys) == 0 {
		bh.Cfg.CertKeys = []string{"k1", "k2"}
	}
	if len(bh.Cfg.Tokens) == 0 {
		bh.Cfg.Tokens = []string{"t1", "t2"}
	}
	wc := world.Config{Seed: world.Uint64Seed(seed, bh.Id), StorageWrapper: bh.Cfg.SW, NodeIdLoader: bh.Cfg.Nidl}
	if bh.Cfg.SO {
		so, err := teststore.New(context.Background())
		if err != nil {
			return nil, err
		}
		wc.Inner = so
	}
	if bh.Cfg.BE == "file" {
		fs, err := file.New(context.Background())
		if err != nil {
			return nil, err
		}
		defer fs.Cleanup(context.Background())
		wc.Inner = fs
	}
	var shared *world.SwitchStorage
	if bh.Cfg.BE == "file2" {
		// two handles (two processes) on one directory: every step of the behaviour runs through one of them
		sw2, cleanup, err := world.NewSwitchStorage(2)
		if err != nil {
			return nil, err
		}
		defer cleanup()
		shared = sw2
		wc.Inner = sw2
	}
	w, err := world.New(wc)
	if err != nil {
		return nil, err
	}
	w.Rec.NidEmptyOK = bh.Cfg.NidE
	w.Rec.NativeNid = bh.Cfg.SO // the store-once back end looks records up by node id itself
	for _, k := range bh.Cfg.CertKeys {
		w.EnsureCertKey(k)
	}
	if _, err := w.InitRoots(); err != nil {
		return nil, fmt.Errorf("init roots: %w", err)
	}
	r := &run{w: w, cfg: bh.Cfg}
	cfgMap := map[string]any{"sw": bh.Cfg.SW, "nidl": bh.Cfg.Nidl, "so": bh.Cfg.SO, "rmerr": bh.Cfg.BE == "file" || bh.Cfg.BE == "file2"}
	var lines []Line
	for i, op := range bh.Ops {
		ln := Line{Tr: bh.Id, I: i + 1, Cfg: cfgMap, Op: op, Obs: map[string]any{}}
		ln.Pre = r.state()
		mark := w.Rec.Mark()
		func() {
			defer func() {
				if p := recover(); p != nil {
					ln.Res = "panic"
					ln.Panic = fmt.Sprint(p)
				}
			}()
			if shared != nil {
				// which of the two handles serves this step must not matter
				shared.Cur = int(world.Uint64Seed(seed, fmt.Sprintf("%s/%d", bh.Id, i)) & 1)
				if h, ok := op["h"].(float64); ok {
					shared.Cur = int(h) & 1 // a behaviour may name the handle of a step
				}
				defer func() { shared.Cur = -1 }()
			}
			r.step(op, &ln)
		}()
		ln.Writes = w.Rec.Writes(mark)
		if v, ok := ln.Obs["ownWrites"].(int); ok {
			ln.Writes = v // the step ran next to another, harness-made call and counted the judged call's writes itself
		}
		ln.Post = r.state()
		lines = append(lines, ln)
	}
	return lines, nil
}

func (r *run) fetchSpec(op map[string]any) world.FetchSpec {
	fs := world.FetchSpec{
		K: s(op, "k"), E: s(op, "e"), Nonce: s(op, "n"),
		WrapW: s(op, "ww"), WrapK: s(op, "wk"), WrapN: s(op, "wn"),
		RewrapBy: s(op, "rby"), RewrapKey: s(op, "rwith"), RewrapK: s(op, "rk"), RewrapN: s(op, "rn"),
		SelfInfo: b(op, "selfinfo"),
	}
	if b(op, "back") {
		// built early / backdated: the validity window began three days ago and has a day to go
		fs.NotBefore, fs.NotAfter = time.Now().Add(-72*time.Hour), time.Now().Add(24*time.Hour)
	}
	return fs
}

func (r *run) step(op map[string]any, ln *Line) {
	w := r.w
	setErr := func(err error) {
		if err != nil {
			ln.Err = err.Error()
		}
	}
	switch s(op, "op") {
	case "Authorize":
		req, err := w.BuildFetch(world.FetchSpec{K: s(op, "k"), E: s(op, "e"), Nonce: s(op, "n")})
		if err != nil {
			panic(err)
		}
		var extra []nodeenrollment.Option
		if st := s(op, "s"); st != world.None {
			extra = append(extra, nodeenrollment.WithState(w.States[st]))
		}
		_, err = registration.AuthorizeNode(w.Ctx, w.Store, req, w.Opts(extra...)...)
		setErr(err)
		ln.Res = okErr(err)

	case "CreateToken":
		if t, ok := w.Tokens[s(op, "t")]; ok && t.Stored {
			ln.Res = "skip"
			return
		}
		tok, err := w.CreateToken(s(op, "t"), s(op, "s"))
		setErr(err)
		ln.Res = okErr(err)
		ln.Obs["reconstructible"] = err == nil && reconstructible(w, tok)

	case "AgeAll":
		time.Sleep(ageMargin)
		w.AgeBoundary = time.Now()
		time.Sleep(ageMargin)
		ln.Res = "ok"

	case "Remove":
		err := w.Store.Remove(w.Ctx, &types.NodeInformation{Id: w.EnsureCertKey(s(op, "k")).KeyId})
		setErr(err)
		ln.Res = okErr(err)

	case "SetRegw":
		w.RegWrapper = s(op, "w")
		ln.Res = "ok"

	case "SetNid":
		ni := &types.NodeInformation{Id: w.EnsureCertKey(s(op, "k")).KeyId}
		if err := w.Inner.Load(w.Ctx, ni); err != nil {
			ln.Res = "skip"
			return
		}
		ni.NodeId = s(op, "nid")
		if err := rawStore(w, ni); err != nil {
			panic(err)
		}
		ln.Res = "ok"

	case "SetPrev":
		kNew, kOld := w.EnsureCertKey(s(op, "k")), w.EnsureCertKey(s(op, "from"))
		if kNew == kOld {
			ln.Res = "skip"
			return
		}
		nNew, err1 := types.LoadNodeInformation(w.Ctx, w.Inner, kNew.KeyId, w.StorageOpts()...)
		nOld, err2 := types.LoadNodeInformation(w.Ctx, w.Inner, kOld.KeyId, w.StorageOpts()...)
		if err1 != nil || err2 != nil {
			ln.Res = "skip"
			return
		}
		if err := nNew.SetPreviousEncryptionKey(nOld); err != nil {
			panic(err)
		}
		if err := nNew.Store(w.Ctx, w.Inner, w.StorageOpts()...); err != nil {
			panic(err)
		}
		ln.Res = "ok"

	case "SetKeyKind":
		// storage-level edit: the record's certificate key becomes an ECDSA P-256 key
		ni := &types.NodeInformation{Id: w.EnsureCertKey(s(op, "k")).KeyId}
		if err := w.Inner.Load(w.Ctx, ni); err != nil {
			ln.Res = "skip"
			return
		}
		ec, err := ecdsa.GenerateKey(elliptic.P256(), rand.Reader)
		if err != nil {
			panic(err)
		}
		pkix, err := x509.MarshalPKIXPublicKey(&ec.PublicKey)
		if err != nil {
			panic(err)
		}
		ni.CertificatePublicKeyPkix = pkix
		if err := rawStore(w, ni); err != nil {
			panic(err)
		}
		ln.Res = "ok"

	case "StripSrv":
		ni := &types.NodeInformation{Id: w.EnsureCertKey(s(op, "k")).KeyId}
		if err := w.Inner.Load(w.Ctx, ni); err != nil || len(ni.ServerEncryptionPrivateKeyBytes) == 0 {
			ln.Res = "skip"
			return
		}
		ni.ServerEncryptionPrivateKeyBytes = nil
		if err := rawStore(w, ni); err != nil {
			panic(err)
		}
		ln.Res = "ok"

	case "TamperTime":
		t, ok := w.Tokens[s(op, "t")]
		raw := &types.ServerLedActivationToken{}
		if ok {
			raw.Id = t.Id
		}
		if !ok || !t.Stored || w.Inner.Load(w.Ctx, raw) != nil {
			ln.Res = "skip"
			return
		}
		raw.CreationTime = timestamppb.New(time.Now().Add(time.Hour))
		if err := w.Inner.Store(w.Ctx, raw); err != nil {
			panic(err)
		}
		ln.Res = "ok"

	case "Transplant":
		t, ok := w.Tokens[s(op, "t")]
		t2, ok2 := w.Tokens[s(op, "t2")]
		if !ok || !ok2 || !t.Stored || !t2.Stored || t == t2 {
			ln.Res = "skip"
			return
		}
		raw, raw2 := &types.ServerLedActivationToken{Id: t.Id}, &types.ServerLedActivationToken{Id: t2.Id}
		if w.Inner.Load(w.Ctx, raw) != nil || w.Inner.Load(w.Ctx, raw2) != nil {
			ln.Res = "skip"
			return
		}
		raw.CreationTimeMarshaled = raw2.CreationTimeMarshaled
		raw.CreationTime = raw2.CreationTime
		if err := w.Inner.Store(w.Ctx, raw); err != nil {
			panic(err)
		}
		ln.Res = "ok"

	case "TransplantWhole":
		t, ok := w.Tokens[s(op, "t")]
		t2, ok2 := w.Tokens[s(op, "t2")]
		if !ok || !ok2 || !t.Stored || !t2.Stored || t == t2 || w.StorageWrapper == world.None {
			ln.Res = "skip"
			return
		}
		src := &types.ServerLedActivationToken{Id: t2.Id}
		if w.Inner.Load(w.Ctx, &types.ServerLedActivationToken{Id: t.Id}) != nil || w.Inner.Load(w.Ctx, src) != nil {
			ln.Res = "skip"
			return
		}
		w.Alias.TokenAlias[t.Id] = src
		ln.Res = "ok"

	case "Fetch":
		req, err := w.BuildFetch(r.fetchSpec(op))
		if err != nil {
			panic(err)
		}
		var extra []nodeenrollment.Option
		t0 := time.Now()
		switch s(op, "life") {
		case "tiny":
			extra = append(extra, nodeenrollment.WithMaximumServerLedActivationTokenLifetime(time.Nanosecond))
		case "zero":
			extra = append(extra, nodeenrollment.WithMaximumServerLedActivationTokenLifetime(0))
		case "neg":
			extra = append(extra, nodeenrollment.WithMaximumServerLedActivationTokenLifetime(-time.Hour))
		case "mid":
			if !w.AgeBoundary.IsZero() {
				extra = append(extra, nodeenrollment.WithMaximumServerLedActivationTokenLifetime(t0.Sub(w.AgeBoundary)))
			}
		}
		if b(op, "skipst") {
			// the caller asks that nothing be stored on its behalf
			extra = append(extra, nodeenrollment.WithSkipStorage(true))
		}
		resp, err := registration.FetchNodeCredentials(w.Ctx, w.Store, req, w.Opts(extra...)...)
		if time.Since(t0) > ageMargin/2 && s(op, "life") == "mid" {
			ln.Unc = true
		}
		setErr(err)
		r.classifyFetch(op, resp, err, ln)

	case "SetPrevCert":
		k, from := w.EnsureCertKey(s(op, "k")), w.EnsureCertKey(s(op, "from"))
		ni := &types.NodeInformation{Id: k.KeyId}
		if w.Inner.Load(w.Ctx, ni) != nil {
			ln.Res = "skip"
			return
		}
		ni.PreviousCertificatePublicKeyPkix = from.Pkix
		if err := rawStore(w, ni); err != nil {
			panic(err)
		}
		ln.Res = "ok"

	case "FetchRace":
		// two overlapping fetches presenting the same token for different keys: A is parked right before it removes
		// the token record (it has loaded and checked it), B runs to completion, A goes on
		tok, ok := w.Tokens[s(op, "t")]
		ka, kb := s(op, "ka"), s(op, "kb")
		cur := r.state()
		if tst := cur.Tokens[s(op, "t")].St; !ok || !tok.Stored || ka == kb || cur.Nodes[ka].Present || cur.Nodes[kb].Present || (tst != "fresh" && tst != "old") {
			ln.Res = "skip"
			return
		}
		want := "inmem"
		if r.cfg.BE == "file" || r.cfg.BE == "file2" {
			want = "file"
		}
		if s(op, "be") != want {
			ln.Res = "skip"
			return
		}
		reqA, err := w.BuildFetch(world.FetchSpec{K: ka, E: s(op, "e"), Nonce: s(op, "t")})
		if err != nil {
			panic(err)
		}
		reqB, err := w.BuildFetch(world.FetchSpec{K: kb, E: s(op, "e"), Nonce: s(op, "t")})
		if err != nil {
			panic(err)
		}
		var respB *types.FetchNodeCredentialsResponse
		var errB error
		fired := false
		w.Rec.Gate = func(o world.OpRec) {
			if !fired && o.Op == "Remove" && o.Type == "ServerLedActivationToken" {
				fired = true
				respB, errB = registration.FetchNodeCredentials(w.Ctx, w.Store, reqB, w.Opts()...)
				_ = r.state() // number B's server key before A's (generation ids are given in order of first observation)
			}
		}
		respA, errA := registration.FetchNodeCredentials(w.Ctx, w.Store, reqA, w.Opts()...)
		w.Rec.Gate = nil
		issued := func(resp *types.FetchNodeCredentialsResponse, err error) bool {
			return err == nil && resp != nil && len(resp.EncryptedNodeCredentials) > 0
		}
		a, bb := issued(respA, errA), issued(respB, errB)
		ln.Obs["parked"] = fired
		switch {
		case !fired:
			ln.Res = "harness-error"
		case a && bb:
			ln.Res = "both"
		case bb:
			ln.Res = "onlyB"
		case a:
			ln.Res = "onlyA"
		default:
			ln.Res = "none"
		}
		setErr(errA)

	case "Submit":
		r.submit(op, ln)

	case "CreateRequest":
		// an honest node builds its own request with the library's node-side code
		nodeStore, err := inmem.New(w.Ctx)
		if err != nil {
			panic(err)
		}
		t0 := time.Now()
		nc, err := types.NewNodeCredentials(w.Ctx, nodeStore)
		if err != nil {
			panic(err)
		}
		if s(op, "flow") == world.None {
			op["flow"] = "plain"
		}
		op["again"] = b(op, "again")
		// flow "wrap": the node builds its request with a registration wrapper (KMS flow); "again": it has built a
		// request from the same credentials before (a polling node) - the request judged is the LATER one
		var copts []nodeenrollment.Option
		if s(op, "flow") == "wrap" {
			copts = append(copts, nodeenrollment.WithRegistrationWrapper(w.Wrappers["W1"]))
		}
		if b(op, "again") {
			if _, err := nc.CreateFetchNodeCredentialsRequest(w.Ctx, copts...); err != nil {
				panic(err)
			}
			time.Sleep(1200 * time.Millisecond)
			t0 = time.Now()
		}
		req, err := nc.CreateFetchNodeCredentialsRequest(w.Ctx, copts...)
		t1 := time.Now()
		if err != nil {
			panic(err)
		}
		var info types.FetchNodeCredentialsInfo
		if err := proto.Unmarshal(req.Bundle, &info); err != nil {
			panic(err)
		}
		nb, na := info.NotBefore.AsTime(), info.NotAfter.AsTime()
		ln.Obs["nbWithin"] = !nb.Before(t0.Add(-time.Millisecond)) && !nb.After(t1.Add(time.Millisecond))
		ln.Obs["lifeSec"] = int(na.Sub(nb) / time.Second)
		ln.Obs["lifeExact"] = na.Sub(nb) == nodeenrollment.DefaultFetchCredentialsLifetime
		if s(op, "flow") == "wrap" {
			ln.Res = "ok" // only the request's own validity window is judged in the wrapper flow
		} else {
			_, err = registration.AuthorizeNode(w.Ctx, w.Store, req, w.Opts()...)
			setErr(err)
			ln.Res = okErr(err)
		}

	case "GenCerts":
		r.genCerts(op, ln)

	case "Rotate":
		r.rotate(op, ln)

	default:
		panic("unknown op " + s(op, "op"))
	}
}

// rawStore writes an edited node record straight to the back end; a store-once back end refuses to overwrite, so
// the harness removes the old record first there
func rawStore(w *world.World, ni *types.NodeInformation) error {
	err := w.Inner.Store(w.Ctx, ni)
	if err != nil {
		_ = w.Inner.Remove(w.Ctx, &types.NodeInformation{Id: ni.Id})
		err = w.Inner.Store(w.Ctx, ni)
	}
	return err
}

func okErr(err error) string {
	if err != nil {
		return "error"
	}
	return "ok"
}

// classifyFetch maps the library's answer to issued / empty / error; "issued"
// is confirmed by opening the response with the private key matching the
// request's encryption key.
func (r *run) classifyFetch(op map[string]any, resp *types.FetchNodeCredentialsResponse, err error, ln *Line) {
	w := r.w
	switch {
	case err != nil:
		ln.Res = "error"
	case resp == nil || len(resp.EncryptedNodeCredentials) == 0:
		ln.Res = "empty"
	default:
		ln.Res = "issued"
		ek := w.EnsureEncKey(s(op, "e"))
		ck := w.EnsureCertKey(s(op, "k"))
		nc := &types.NodeCredentials{
			CertificatePublicKeyPkix:       ck.Pkix,
			EncryptionPrivateKeyBytes:      ek.Priv,
			EncryptionPrivateKeyType:       types.KEYTYPE_X25519,
			ServerEncryptionPublicKeyBytes: resp.ServerEncryptionPublicKeyBytes,
			ServerEncryptionPublicKeyType:  resp.ServerEncryptionPublicKeyType,
		}
		out := new(types.NodeCredentials)
		derr := nodeenrollment.DecryptMessage(w.Ctx, resp.EncryptedNodeCredentials, nc, out)
		ln.Obs["opens"] = derr == nil
		ln.Obs["echo"] = derr == nil && string(out.RegistrationNonce) == string(w.NonceBytes(s(op, "n")))
		ln.Obs["bundles"] = len(out.CertificateBundles)
	}
}

const gridUnit = time.Minute

func (r *run) submit(op map[string]any, ln *Line) {
	w := r.w
	now := time.Now()
	fs := world.FetchSpec{K: s(op, "k"), E: s(op, "e"), Nonce: s(op, "n"),
		NotBefore: now.Add(time.Duration(num(op, "nb")) * gridUnit),
		NotAfter:  now.Add(time.Duration(num(op, "na")) * gridUnit)}
	info, err := w.BuildInfo(fs)
	if err != nil {
		panic(err)
	}
	mut := s(op, "mut")
	signer := fs.K
	switch mut {
	case "signedByOther":
		signer = "kx"
	case "signedByNamedPrev":
		// the bundle names kx as the node's PREVIOUS certificate key and is signed by kx, not by the key it names as its own
		info.PreviousCertificatePublicKeyPkix = w.EnsureCertKey("kx").Pkix
		signer = "kx"
	case "noCertKey":
		info.CertificatePublicKeyPkix = nil
	case "badCertType":
		info.CertificatePublicKeyType = types.KEYTYPE_X25519
	case "noCertType":
		info.CertificatePublicKeyType = types.KEYTYPE_UNSPECIFIED
	case "noEncType":
		info.EncryptionPublicKeyType = types.KEYTYPE_UNSPECIFIED
	case "noNonce":
		info.Nonce = nil
	case "noNotAfter":
		info.NotAfter = nil
	case "noEncKey":
		info.EncryptionPublicKeyBytes = nil
	case "badEncType":
		info.EncryptionPublicKeyType = types.KEYTYPE_ED25519
	}
	req, err := w.SignInfo(info, signer)
	if err != nil {
		panic(err)
	}
	if b(op, "prime") {
		// the genuine request is presented once first (an ordinary, possibly unauthorised poll)
		_, _ = registration.FetchNodeCredentials(w.Ctx, w.Store, req, w.Opts(
			nodeenrollment.WithNotBeforeClockSkew(time.Duration(num(op, "sknb"))*gridUnit),
			nodeenrollment.WithNotAfterClockSkew(time.Duration(num(op, "skna"))*gridUnit))...)
		ln.Obs["primed"] = true
	}
	bit := -1
	if _, ok := op["bit"]; ok {
		bit = num(op, "bit")
	}
	pick := func(n int) int {
		if bit >= 0 {
			return bit % n
		}
		return w.Rng.Intn(n)
	}
	switch mut {
	case "flipBundle":
		i := pick(len(req.Bundle) * 8)
		req.Bundle = append([]byte(nil), req.Bundle...)
		req.Bundle[i/8] ^= 1 << (i % 8)
		ln.Obs["bit"] = i
	case "flipSig":
		i := pick(len(req.BundleSignature) * 8)
		req.BundleSignature = append([]byte(nil), req.BundleSignature...)
		req.BundleSignature[i/8] ^= 1 << (i % 8)
		ln.Obs["bit"] = i
	case "truncBundle":
		i := pick(len(req.Bundle))
		req.Bundle = req.Bundle[:i]
		ln.Obs["bit"] = i
	case "truncSig":
		i := pick(len(req.BundleSignature))
		req.BundleSignature = req.BundleSignature[:i]
		ln.Obs["bit"] = i
	case "appendField22":
		// a registration-flow info (field 22) appended to the validly signed bundle
		extra, _ := proto.Marshal(&types.FetchNodeCredentialsInfo{WrappingRegistrationFlowInfo: &types.WrappingRegistrationFlowInfo{
			CertificatePublicKeyPkix: info.CertificatePublicKeyPkix, Nonce: info.Nonce}})
		req.Bundle = append(append([]byte(nil), req.Bundle...), extra...)
	case "appendUnknownField":
		req.Bundle = append(append([]byte(nil), req.Bundle...), 0x98, 0x06, 0x01) // field 99, varint 1
	case "noBundle":
		req.Bundle = nil
	case "noSig":
		req.BundleSignature = nil
	case "noiseBundle":
		req.Bundle = append([]byte(nil), req.Bundle...)
		for changed := false; !changed; {
			off := w.Rng.Intn(len(req.Bundle))
			n := 1 + w.Rng.Intn(8)
			for j := off; j < off+n && j < len(req.Bundle); j++ {
				nb := byte(w.Rng.Intn(256))
				if nb != req.Bundle[j] {
					changed = true
				}
				req.Bundle[j] = nb
			}
		}
	case "noiseSig":
		req.BundleSignature = append([]byte(nil), req.BundleSignature...)
		for changed := false; !changed; {
			off := w.Rng.Intn(len(req.BundleSignature))
			n := 1 + w.Rng.Intn(8)
			for j := off; j < off+n && j < len(req.BundleSignature); j++ {
				nb := byte(w.Rng.Intn(256))
				if nb != req.BundleSignature[j] {
					changed = true
				}
				req.BundleSignature[j] = nb
			}
		}
	}
	if b(op, "relay") {
		// the (invalid) request arrives in the relayed shape: a registered intermediate - any present record of another key -
		// has re-wrapped registration info for the request's key and nonce
		cur := r.state()
		for _, m := range r.cfg.CertKeys {
			if m == fs.K || !cur.Nodes[m].Present || cur.Nodes[m].Srv == 0 {
				continue
			}
			src, err := w.NodeSideKeySource(m)
			if err != nil {
				continue
			}
			regInfo := &types.WrappingRegistrationFlowInfo{CertificatePublicKeyPkix: w.EnsureCertKey(fs.K).Pkix, Nonce: w.NonceBytes(fs.Nonce)}
			if ct, err := nodeenrollment.EncryptMessage(w.Ctx, regInfo, src); err == nil {
				req.RewrappedWrappingRegistrationFlowInfo = ct
				req.RewrappingKeyId = w.EnsureCertKey(m).KeyId
				ln.Obs["relayedBy"] = m
			}
			break
		}
	}
	opts := w.Opts(
		nodeenrollment.WithNotBeforeClockSkew(time.Duration(num(op, "sknb"))*gridUnit),
		nodeenrollment.WithNotAfterClockSkew(time.Duration(num(op, "skna"))*gridUnit),
	)
	if s(op, "api") == "authorize" && b(op, "during") {
		// the (invalid) request is submitted while a VALID authorisation of the same node is in flight, held up at its
		// storage write; what the valid call registers is not the judged call's doing and is undone afterwards
		validReq, err := w.BuildFetch(world.FetchSpec{K: fs.K, E: fs.E, Nonce: fs.Nonce})
		if err != nil {
			panic(err)
		}
		parked, release, vdone := make(chan struct{}), make(chan struct{}), make(chan struct{})
		var once sync.Once
		fired := false
		w.Rec.Gate = func(o world.OpRec) {
			if o.Op == "Store" && o.Type == "NodeInformation" {
				hit := false
				once.Do(func() { hit = true })
				if hit {
					fired = true
					close(parked)
					<-release
				}
			}
		}
		go func() {
			defer close(vdone)
			_, _ = registration.AuthorizeNode(w.Ctx, w.Store, validReq, w.Opts()...)
		}()
		select {
		case <-parked:
		case <-vdone:
		case <-time.After(3 * time.Second):
		}
		mark := w.Rec.Mark()
		idone := make(chan error, 1)
		go func() {
			_, err := registration.AuthorizeNode(w.Ctx, w.Store, req, opts...)
			idone <- err
		}()
		var ierr error
		got := false
		select {
		case ierr = <-idone:
			got = true
		case <-time.After(500 * time.Millisecond):
		}
		ln.Obs["ownWrites"] = w.Rec.Writes(mark)
		ln.Obs["parked"] = fired
		close(release)
		<-vdone
		if !got {
			// the judged call did not return while the other one was held up
			ierr = <-idone
			ln.Obs["waitedForTheOther"] = true
		}
		w.Rec.Gate = nil
		if fired {
			_ = w.Inner.Remove(w.Ctx, &types.NodeInformation{Id: w.EnsureCertKey(fs.K).KeyId})
		}
		if ierr != nil {
			ln.Err = ierr.Error()
		}
		ln.Res = okErr(ierr)
		return
	}
	if s(op, "api") == "authorize" {
		_, err := registration.AuthorizeNode(w.Ctx, w.Store, req, opts...)
		if err != nil {
			ln.Err = err.Error()
		}
		ln.Res = okErr(err)
	} else {
		resp, err := registration.FetchNodeCredentials(w.Ctx, w.Store, req, opts...)
		if err != nil {
			ln.Err = err.Error()
		}
		r.classifyFetch(op, resp, err, ln)
	}
}

func (r *run) setOrder(order []string) {
	w := r.w
	rank := map[string]int{}
	for i, k := range order {
		rank[w.EnsureCertKey(k).KeyId] = i
	}
	w.Rec.NidOrder = func(ids []string) []string {
		out := append([]string(nil), ids...)
		sort.SliceStable(out, func(a, b int) bool {
			ra, oka := rank[out[a]]
			rb, okb := rank[out[b]]
			if !oka {
				ra = 1 << 20
			}
			if !okb {
				rb = 1 << 20
			}
			return ra < rb
		})
		return out
	}
}

func (r *run) signer(name string) ed25519.PrivateKey {
	if name == world.None {
		return nil
	}
	return r.w.EnsureCertKey(name).Priv
}

func (r *run) genCerts(op map[string]any, ln *Line) {
	w := r.w
	r.setOrder(strs(op, "order"))
	nonce := make([]byte, nodeenrollment.NonceSize)
	rand.Read(nonce)
	// reuse: the nonce (and so its signature) of the previous request of this behaviour is presented again - a nonce
	// travels in clear in the ClientHello - possibly with another key named, another state or other signatures
	if b(op, "reuse") && r.lastNonce != nil {
		nonce = r.lastNonce
	}
	r.lastNonce = nonce
	req := &types.GenerateServerCertificatesRequest{
		CertificatePublicKeyPkix: w.EnsureCertKey(s(op, "k")).Pkix,
		Nonce:                    nonce,
		SkipVerification:         b(op, "skip"),
	}
	if nid := s(op, "nid"); nid != world.None {
		req.NodeId = nid
	}
	if p := r.signer(s(op, "nsig")); p != nil {
		req.NonceSignature = ed25519.Sign(p, nonce)
	}
	if b(op, "hasState") {
		sb, _ := proto.Marshal(w.States["s1"])
		req.ClientState = sb
		if p := r.signer(s(op, "ssig")); p != nil {
			req.ClientStateSignature = ed25519.Sign(p, sb)
		}
	}
	gopts := w.StorageOpts()
	if s(op, "lg") == "trace" {
		// the caller's options carry a logger at trace level
		gopts = append(gopts, nodeenrollment.WithLogger(hclog.New(&hclog.LoggerOptions{Level: hclog.Trace, Output: io.Discard})))
	}
	resp, err := nodetls.GenerateServerCertificates(w.Ctx, w.Store, req, gopts...)
	switch {
	case err != nil:
		ln.Err = err.Error()
		ln.Res = "error"
		ln.Obs["leak"] = resp != nil
	case resp == nil:
		ln.Res = "error"
	case resp.ClientState != nil:
		ln.Res = "certs+state"
	default:
		ln.Res = "certs"
	}
	if resp != nil {
		ln.Obs["bundles"] = len(resp.CertificateBundles)
	}
}

// keySource returns the node-side key source for (record src, cur|prev).
func (r *run) keySource(src, which string) (*types.NodeCredentials, string) {
	w := r.w
	if src == "rand" || src == world.None {
		ks, _ := w.NodeSideKeySource("rand")
		return ks, "rand"
	}
	if which == "gone" {
		if g, ok := w.GoneSrc[src]; ok {
			return g.Src, "gone:" + src
		}
		ks, _ := w.NodeSideKeySource("rand")
		return ks, "rand"
	}
	if which == "cur" {
		ks, _ := w.NodeSideKeySource(src)
		return ks, "cur:" + src
	}
	ck := w.EnsureCertKey(src)
	ni, err := types.LoadNodeInformation(w.Ctx, w.Inner, ck.KeyId, w.ObsOpts()...)
	if err != nil || ni.PreviousEncryptionKey == nil {
		ks, _ := w.NodeSideKeySource("rand")
		return ks, "rand"
	}
	pk := ni.PreviousEncryptionKey
	encName := w.EncName(pk.PublicKeyPkix)
	ek, ok := w.EncKeys[encName]
	prevName := w.CertNameById(pk.KeyId)
	pck, ok2 := w.CertKeys[prevName]
	sp, err := ecdh.X25519().NewPrivateKey(pk.PrivateKeyPkcs8)
	if !ok || !ok2 || err != nil {
		ks, _ := w.NodeSideKeySource("rand")
		return ks, "rand"
	}
	return &types.NodeCredentials{
		CertificatePublicKeyPkix:       pck.Pkix,
		EncryptionPrivateKeyBytes:      ek.Priv,
		EncryptionPrivateKeyType:       types.KEYTYPE_X25519,
		ServerEncryptionPublicKeyBytes: sp.PublicKey().Bytes(),
		ServerEncryptionPublicKeyType:  types.KEYTYPE_X25519,
	}, "prev:" + src
}

func (r *run) rotate(op map[string]any, ln *Line) {
	w := r.w
	r.setOrder(strs(op, "order"))
	// iid: the inner signed bundle carries an id field that is not the key id of its certificate key
	// win: the inner request's validity window: ok | exp2m (ended two minutes ago) | fut2m (starts in two minutes), while
	// the server is configured with clock skews of 30 s (well inside the library's default of five minutes)
	fsp := world.FetchSpec{K: s(op, "k2"), E: s(op, "e2"), Nonce: s(op, "n2"), PrevK: s(op, "k"), WrongId: b(op, "iid")}
	win := s(op, "win")
	if win == world.None {
		win = "ok"
	}
	op["win"] = win
	switch win {
	case "exp2m":
		fsp.NotBefore, fsp.NotAfter = time.Now().Add(-time.Hour), time.Now().Add(-2*time.Minute)
	case "fut2m":
		fsp.NotBefore, fsp.NotAfter = time.Now().Add(2*time.Minute), time.Now().Add(time.Hour)
	}
	inner, err := w.BuildFetch(fsp)
	if err != nil {
		panic(err)
	}
	ks, _ := r.keySource(s(op, "src"), s(op, "which"))
	if s(op, "which") == "gone" {
		// the model is told WHICH key this is: its generation number and the node encryption key it was agreed with
		op["gsrv"], op["genc"] = 0, world.None
		if g, ok := w.GoneSrc[s(op, "src")]; ok {
			op["gsrv"], op["genc"] = w.SrvGen(g.SrvPriv), g.Enc
		}
	}
	ct, err := nodeenrollment.EncryptMessage(w.Ctx, inner, ks)
	if err != nil {
		panic(err)
	}
	req := &types.RotateNodeCredentialsRequest{
		CertificatePublicKeyPkix:             w.EnsureCertKey(s(op, "k")).Pkix,
		EncryptedFetchNodeCredentialsRequest: ct,
	}
	if nid := s(op, "nid"); nid != world.None {
		req.NodeId = nid
	}
	// candidate keys for opening the reply, taken BEFORE the call
	type cand struct {
		name string
		ks   *types.NodeCredentials
	}
	var cands []cand
	for _, k := range r.cfg.CertKeys {
		for _, which := range []string{"cur", "prev"} {
			c, name := r.keySource(k, which)
			if name != "rand" {
				cands = append(cands, cand{name, c})
			}
		}
	}
	var rotOpts []nodeenrollment.Option
	if os := s(op, "ostate"); os != world.None {
		rotOpts = append(rotOpts, nodeenrollment.WithState(w.States[os]))
	}
	if win != "ok" {
		rotOpts = append(rotOpts, nodeenrollment.WithNotBeforeClockSkew(-30*time.Second), nodeenrollment.WithNotAfterClockSkew(30*time.Second))
	}
	lf, _ := op["lf"].(bool)
	op["lf"] = lf
	if lf {
		// a transient storage fault at the first lookup of the NEW key's record during the call (the check that the key
		// is not registered yet, which is what refuses a replayed payload)
		w.Rec.Fail, w.Rec.FailOp, w.Rec.FailType, w.Rec.FailId = world.FaultGeneric, "Load", "NodeInformation", w.EnsureCertKey(s(op, "k2")).KeyId
	}
	resp, err := rotation.RotateNodeCredentials(w.Ctx, w.Store, req, w.Opts(rotOpts...)...)
	w.Rec.FailOp, w.Rec.FailId = "", ""
	opens := []string{}
	innerOpens := []string{}
	echo := false
	if err != nil {
		ln.Err = err.Error()
		ln.Res = "error"
	} else if resp == nil || len(resp.EncryptedFetchNodeCredentialsResponse) == 0 {
		ln.Res = "error"
	} else {
		ln.Res = "rotated"
		var fr *types.FetchNodeCredentialsResponse
		for _, c := range cands {
			out := new(types.FetchNodeCredentialsResponse)
			if nodeenrollment.DecryptMessage(w.Ctx, resp.EncryptedFetchNodeCredentialsResponse, c.ks, out) == nil {
				opens = append(opens, c.name)
				fr = out
			}
		}
		if fr != nil {
			ck := w.EnsureCertKey(s(op, "k2"))
			names := make([]string, 0, len(w.EncKeys))
			for n := range w.EncKeys {
				names = append(names, n)
			}
			sort.Strings(names)
			for _, n := range names {
				nc := &types.NodeCredentials{
					CertificatePublicKeyPkix:       ck.Pkix,
					EncryptionPrivateKeyBytes:      w.EncKeys[n].Priv,
					EncryptionPrivateKeyType:       types.KEYTYPE_X25519,
					ServerEncryptionPublicKeyBytes: fr.ServerEncryptionPublicKeyBytes,
					ServerEncryptionPublicKeyType:  fr.ServerEncryptionPublicKeyType,
				}
				out := new(types.NodeCredentials)
				if nodeenrollment.DecryptMessage(w.Ctx, fr.EncryptedNodeCredentials, nc, out) == nil {
					innerOpens = append(innerOpens, n)
					if string(out.RegistrationNonce) == string(w.NonceBytes(s(op, "n2"))) {
						echo = true
					}
				}
			}
		}
	}
	sort.Strings(opens)
	ln.Obs["opens"] = opens
	ln.Obs["innerOpens"] = innerOpens
	ln.Obs["echo"] = echo
}

// reconstructible: can the token be rebuilt from what the server persisted for it (record id and record bytes)?
// The token is (nonce, hmac key); the id is base58(nonce || HMAC(key, "")). Every 32-byte window of the
// persisted material is tried as the key.
func reconstructible(w *world.World, tok *world.Token) bool {
	raw := &types.ServerLedActivationToken{Id: tok.Id}
	if w.Inner.Load(w.Ctx, raw) != nil {
		return false
	}
	rb, _ := proto.Marshal(raw)
	idb, err := base58.FastBase58Decoding(tok.Id)
	if err != nil || len(idb) < 32 {
		return false
	}
	material := append(append([]byte(nil), idb...), rb...)
	nonce := idb[:32]
	for i := 0; i+32 <= len(material); i++ {
		key := material[i : i+32]
		hm := hmac.New(sha256.New, key)
		if base58.FastBase58Encoding(hm.Sum(append([]byte(nil), nonce...))) == tok.Id {
			return true
		}
	}
	return false
}

// MarshalLines renders lines as ndjson.
func MarshalLines(lines []Line) ([]byte, error) {
	var sb strings.Builder
	for _, l := range lines {
		bts, err := json.Marshal(l)
		if err != nil {
			return nil, err
		}
		sb.Write(bts)
		sb.WriteByte('\n')
	}
	return []byte(sb.String()), nil
}
