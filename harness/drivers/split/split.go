// Package split drives a real net.SplitListener on top of a real
// InterceptingListener (C17).
package split

import (
	"context"
	"crypto/tls"
	"encoding/base64"
	"errors"
	"fmt"
	"net"
	"strings"
	"sync"
	"time"

	"github.com/hashicorp/nodeenrollment"
	nodeenet "github.com/hashicorp/nodeenrollment/net"
	"github.com/hashicorp/nodeenrollment/protocol"
	nodetls "github.com/hashicorp/nodeenrollment/tls"
	"google.golang.org/protobuf/proto"
	"google.golang.org/protobuf/types/known/structpb"

	"verifharness/hs"
	"verifharness/world"
)

type Behaviour struct {
	Id  string           `json:"id"`
	Ops []map[string]any `json:"ops"`
}

type Obs struct {
	From       string `json:"from"`
	Native     bool   `json:"native"`
	Auth       bool   `json:"auth"`
	Deliveries int    `json:"deliveries"`
	AllClosed  bool   `json:"allClosed"`
	Negotiated string `json:"negotiated"`
	ClientErr  string `json:"clientErr"`
}

type Line struct {
	Tr  string         `json:"tr"`
	I   int            `json:"i"`
	Cfg map[string]any `json:"cfg"`
	Op  map[string]any `json:"op"`
	Res string         `json:"res"`
	Obs Obs            `json:"obs"`
	Err string         `json:"err"`
}

type delivery struct {
	from   string
	native bool
	auth   bool
	neg    string
	conn   net.Conn
}

func strList(v any) []string {
	out := []string{}
	if arr, ok := v.([]any); ok {
		for _, x := range arr {
			out = append(out, fmt.Sprint(x))
		}
	}
	return out
}

func Run(bh Behaviour, seed int64) ([]Line, error) {
	if len(bh.Ops) == 0 || fmt.Sprint(bh.Ops[0]["op"]) != "Config" {
		return nil, fmt.Errorf("behaviour must start with Config")
	}
	reg := strList(bh.Ops[0]["reg"])
	native := map[string]bool{}
	for _, n := range strList(bh.Ops[0]["native"]) {
		native[n] = true
	}
	// closeErr "custom": the base listener reports its closure with an error of its own (a session-style listener)
	customClose := fmt.Sprint(bh.Ops[0]["closeErr"]) == "custom"
	srv, err := hs.NewServer(hs.ServerConfig{Seed: world.Uint64Seed(seed, bh.Id), NoAcceptLoop: true, CustomCloseErr: customClose})
	if err != nil {
		return nil, err
	}
	defer srv.Close()
	// one enrolled node
	if _, err := srv.Enroll("k1", nil); err != nil {
		return nil, err
	}
	sl, err := nodeenet.NewSplitListener(srv.Ln)
	if err != nil {
		return nil, err
	}
	subs := map[string]net.Listener{}
	deliveries := make(chan delivery, 64)
	closedCh := make(chan string, 16)
	var wg sync.WaitGroup
	// late: sub-listeners requested only AFTER Start is running (allowed until the base listener is closed)
	late := map[string]bool{}
	for _, n := range strList(bh.Ops[0]["late"]) {
		late[n] = true
	}
	startErr := make(chan error, 1)
	started := false
	for pass := 0; pass < 2; pass++ {
		if pass == 1 {
			go func() { startErr <- sl.Start() }()
			started = true
			time.Sleep(60 * time.Millisecond)
		}
		for _, name := range reg {
			if late[name] != (pass == 1) {
				continue
			}
			ln, err := sl.GetListener(name, nodeenrollment.WithNativeConns(native[name]))
			if err != nil {
				return nil, err
			}
			subs[name] = ln
			wg.Add(1)
			go func(name string, ln net.Listener) {
				defer wg.Done()
				for {
					c, err := ln.Accept()
					if err != nil {
						if errors.Is(err, net.ErrClosed) {
							closedCh <- name
						} else {
							closedCh <- name + ":" + err.Error()
						}
						return
					}
					d := delivery{from: name, conn: c}
					switch x := c.(type) {
					case *protocol.Conn:
						d.native = true
						d.neg = x.ConnectionState().NegotiatedProtocol
					case *tls.Conn:
						d.neg = x.ConnectionState().NegotiatedProtocol
					default:
						d.neg = "?"
					}
					d.auth = strings.HasPrefix(d.neg, nodeenrollment.AuthenticateNodeNextProtoV1Prefix)
					deliveries <- d
				}
			}(name, ln)
		}
	}
	_ = started

	cfgMap := map[string]any{"reg": reg, "native": strList(bh.Ops[0]["native"])}
	var lines []Line
	for i, op := range bh.Ops {
		ln := Line{Tr: bh.Id, I: i + 1, Cfg: cfgMap, Op: op, Obs: Obs{From: "none"}}
		if _, ok := op["extras"]; !ok {
			op["extras"] = []any{}
		}
		if _, ok := op["kind"]; !ok {
			op["kind"] = "none"
		}
		switch fmt.Sprint(op["op"]) {
		case "Config":
			ln.Res = "ok"
		case "Client":
			extras := strList(op["extras"])
			var conn net.Conn
			var cerr error
			ctx, cancel := context.WithTimeout(context.Background(), 5*time.Second)
			switch fmt.Sprint(op["kind"]) {
			case "node":
				var opts []nodeenrollment.Option
				if len(extras) > 0 {
					opts = append(opts, nodeenrollment.WithExtraAlpnProtos(extras))
				}
				if fmt.Sprint(op["st"]) == "big" {
					// a large client state: the authentication request needs a few dozen ALPN chunks
					st, _ := structpb.NewStruct(map[string]any{"blob": strings.Repeat("s", 4096)})
					opts = append(opts, nodeenrollment.WithState(st))
				}
				conn, cerr = protocol.Dial(ctx, srv.Nodes["k1"].Storage, srv.Addr, opts...)
			case "base":
				raw, err := net.DialTimeout("tcp", srv.Addr, 2*time.Second)
				if err != nil {
					cerr = err
					break
				}
				tc := tls.Client(raw, &tls.Config{InsecureSkipVerify: true, NextProtos: extras})
				_ = raw.SetDeadline(time.Now().Add(3 * time.Second))
				cerr = tc.HandshakeContext(ctx)
				conn = tc
			case "nodeAfter", "nodeBefore":
				// the registered node as a raw TLS client that places its application protocols AFTER the certificate
				// preference entry / BEFORE the library's chunks (any order of the ALPN list is legitimate)
				c := hs.Client{Kind: "auth", K: "k1", Ck: "k1", Chain: "b0", Priv: true, Nsig: "k1", Pref: "cur", Extras: extras, XPos: "afterPref"}
				if fmt.Sprint(op["kind"]) == "nodeBefore" {
					c.XPos = "before"
				}
				protos, _, perr := srv.BuildAuthProtos(c)
				cert, cerr2 := srv.ClientCert(c)
				if perr != nil || cerr2 != nil {
					cancel()
					return nil, fmt.Errorf("raw node client: %v %v", perr, cerr2)
				}
				es, _ := srv.RawDial(ctx, protos, cert, tls.VersionTLS12)
				if es != "" {
					cerr = errors.New(es)
				}
			case "rogue":
				// never enrolled: an EMPTY authentication entry first, then the chunks of a self-signed fetch request
				info, ierr := srv.W.BuildInfo(world.FetchSpec{K: "kx", E: "e1", Nonce: "n1"})
				if ierr != nil {
					cancel()
					return nil, ierr
				}
				freq, _ := srv.W.SignInfo(info, "kx")
				fb, _ := proto.Marshal(freq)
				fp, _ := nodetls.BreakIntoNextProtos(nodeenrollment.FetchNodeCredsNextProtoV1Prefix, base64.RawStdEncoding.EncodeToString(fb))
				protos := append([]string{nodeenrollment.AuthenticateNodeNextProtoV1Prefix + "00-"}, fp...)
				protos = append(protos, extras...)
				cert, _ := srv.ClientCert(hs.Client{Ck: "kx", Chain: "self", Priv: true})
				es, _ := srv.RawDial(ctx, protos, cert, tls.VersionTLS12)
				if es != "" {
					cerr = errors.New(es)
				}
			case "fetch":
				name := fmt.Sprintf("fx%d", i)
				if _, err := srv.NewNode(name); err != nil {
					cancel()
					return nil, err
				}
				conn, cerr = protocol.Dial(ctx, srv.Nodes[name].Storage, srv.Addr)
			}
			cancel()
			if cerr != nil {
				ln.Obs.ClientErr = cerr.Error()
			}
			// which sub-listener (if any) hands the connection out
			timeout := time.After(400 * time.Millisecond)
		collect:
			for {
				select {
				case d := <-deliveries:
					ln.Obs.Deliveries++
					ln.Obs.From, ln.Obs.Native, ln.Obs.Auth, ln.Obs.Negotiated = d.from, d.native, d.auth, d.neg
					d.conn.Close()
					timeout = time.After(100 * time.Millisecond)
				case <-timeout:
					break collect
				}
			}
			if conn != nil {
				conn.Close()
			}
			ln.Res = ln.Obs.From
		case "Lookup":
			// another component fetches an already registered sub-listener by name, without options
			got, err := sl.GetListener(fmt.Sprint(op["name"]))
			switch {
			case err != nil:
				ln.Res, ln.Err = "error", err.Error()
			case got == subs[fmt.Sprint(op["name"])]:
				ln.Res = "same"
			default:
				ln.Res = "other"
			}
		case "CloseBase":
			srv.Close()
			got := map[string]bool{}
			deadline := time.After(2 * time.Second)
		wait:
			for len(got) < len(reg) {
				select {
				case n := <-closedCh:
					got[n] = true
				case <-deadline:
					break wait
				}
			}
			ln.Obs.AllClosed = true
			for _, n := range reg {
				if !got[n] {
					ln.Obs.AllClosed = false
				}
			}
			select {
			case <-startErr:
			case <-time.After(time.Second):
				ln.Obs.AllClosed = false
				ln.Err = "Start did not return after the base listener was closed"
			}
			ln.Res = "ok"
		}
		lines = append(lines, ln)
	}
	return lines, nil
}
