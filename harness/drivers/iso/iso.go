// Package iso checks isolation of concurrent handshakes on one
// InterceptingListener (C15): deterministic two-connection schedules in which
// connection A is parked at a storage call or inside a listener callback while
// connection B runs to completion, a sentinel on the application's option
// slice, and free-running concurrent mixes for the race detector.
package iso

import (
	"sync/atomic"
	"crypto/tls"
	"errors"
	"bytes"
	"context"
	"fmt"
	"sync"
	"time"

	"github.com/hashicorp/go-hclog"
	"github.com/hashicorp/nodeenrollment"
	"github.com/hashicorp/nodeenrollment/protocol"
	"github.com/hashicorp/nodeenrollment/registration"
	"github.com/hashicorp/nodeenrollment/storage/inmem"
	"github.com/hashicorp/nodeenrollment/types"
	"google.golang.org/protobuf/proto"
	"google.golang.org/protobuf/types/known/structpb"

	"verifharness/hs"
	"verifharness/world"
)

type Behaviour struct {
	Id  string           `json:"id"`
	Ops []map[string]any `json:"ops"`
}

type Obs struct {
	Parked     bool   `json:"parked"`
	AOutcome   string `json:"aOutcome"` // auth | enrolled | rejected | failed | missing
	BOutcome   string `json:"bOutcome"`
	AOwnState  bool   `json:"aOwnState"`
	BOwnState  bool   `json:"bOwnState"`
	AOwnProtos bool   `json:"aOwnProtos"`
	BOwnProtos bool   `json:"bOwnProtos"`
	Sentinel   bool   `json:"sentinel"` // the application's option slice is untouched beyond its length
	Conns      int    `json:"conns"`
	Failures   int    `json:"failures"`
	Msg        string `json:"msg"`
}

type Line struct {
	Tr  string         `json:"tr"`
	I   int            `json:"i"`
	Op  map[string]any `json:"op"`
	Res string         `json:"res"`
	Obs Obs            `json:"obs"`
}

func str(m map[string]any, k string) string {
	if v, ok := m[k].(string); ok {
		return v
	}
	return "none"
}
func num(m map[string]any, k string) int {
	if v, ok := m[k].(float64); ok {
		return int(v)
	}
	return 0
}

type gates struct {
	mu      sync.Mutex
	armed   map[string]bool          // gate key -> armed
	parked  chan string              // signals that a gate was reached
	release map[string]chan struct{} // gate key -> release channel
}

func newGates() *gates {
	return &gates{armed: map[string]bool{}, parked: make(chan string, 8), release: map[string]chan struct{}{}}
}
func (g *gates) arm(key string) {
	g.mu.Lock()
	g.armed[key] = true
	g.release[key] = make(chan struct{})
	g.mu.Unlock()
}
func (g *gates) hit(key string) {
	g.mu.Lock()
	ok := g.armed[key]
	var ch chan struct{}
	if ok {
		g.armed[key] = false // one shot
		ch = g.release[key]
	}
	g.mu.Unlock()
	if ok {
		g.parked <- key
		select {
		case <-ch:
		case <-time.After(6 * time.Second):
		}
	}
}
func (g *gates) open(key string) {
	g.mu.Lock()
	if ch, ok := g.release[key]; ok {
		select {
		case <-ch:
		default:
			close(ch)
		}
	}
	g.mu.Unlock()
}

type party struct {
	name   string // node name (cert key name)
	kind   string // auth | token | rejected
	state  *structpb.Struct
	marker string
	tokId  string
	store  nodeenrollment.Storage
	opts   []nodeenrollment.Option
}

type env struct {
	unwraps atomic.Int64 // unwrap calls since the gate was armed
	lstate  *structpb.Struct // the WithState value in the listener's own options (nil: none), and a pristine copy
	lstate0 *structpb.Struct
	srv     *hs.Server
	g       *gates
	results chan hs.AcceptResult
	appOpts []nodeenrollment.Option
	wg      sync.WaitGroup
	first   *party // party A of a schedule (a later party may share its identity)
}

func newEnv(seed int64, spare, acceptors int, sw, lstate bool, bare ...bool) (*env, error) {
	e := &env{g: newGates(), results: make(chan hs.AcceptResult, 64)}
	extra := []nodeenrollment.Option{nodeenrollment.WithLogger(hclog.NewNullLogger())}
	if lstate {
		e.lstate, _ = structpb.NewStruct(map[string]any{"owner": "listener", "configured": true})
		e.lstate0 = proto.Clone(e.lstate).(*structpb.Struct)
		extra = append(extra, nodeenrollment.WithState(e.lstate))
	}
	cfg := hs.ServerConfig{Seed: seed, StorageWrapper: sw, NoAcceptLoop: true, OptsSpare: spare, BareBaseTLS: len(bare) > 0 && bare[0],
		ExtraOpts: extra,
		GenBefore: func(req *types.GenerateServerCertificatesRequest) { e.g.hit("genBefore:" + string(req.CertificatePublicKeyPkix)) },
		GenAfter:  func(req *types.GenerateServerCertificatesRequest) { e.g.hit("genAfter:" + string(req.CertificatePublicKeyPkix)) },
	}
	srv, err := hs.NewServer(cfg)
	if err != nil {
		return nil, err
	}
	e.srv = srv
	e.appOpts = srv.Opts
	if sw {
		// every unwrap of a stored key is a point where a scheduler may hold a handshake up
		srv.W.Wrappers["SW"].OnDecrypt = func() {
			e.g.hit(fmt.Sprintf("unwrap:%d", e.unwraps.Add(1)))
		}
	}
	srv.W.Rec.Gate = func(op world.OpRec) {
		if op.Op == "Remove" && op.Type == "ServerLedActivationToken" {
			e.g.hit("tokenRemove:" + op.Id)
		}
		if op.Op == "Load" && op.Type == "NodeInformation" {
			e.g.hit("niLoad:" + op.Id)
		}
	}
	for i := 0; i < acceptors; i++ {
		e.wg.Add(1)
		go func() {
			defer e.wg.Done()
			for {
				r, stop := srv.AcceptOnce()
				if stop {
					return
				}
				e.results <- r
			}
		}()
	}
	return e, nil
}

func (e *env) close() {
	e.srv.Close()
	done := make(chan struct{})
	go func() { e.wg.Wait(); close(done) }()
	select {
	case <-done:
	case <-time.After(2 * time.Second):
	}
}

func (e *env) sentinel() bool {
	// the application's own option VALUES are untouched too
	if e.lstate != nil && !proto.Equal(e.lstate, e.lstate0) {
		return false
	}
	full := e.appOpts[:cap(e.appOpts)]
	for i := len(e.appOpts); i < len(full); i++ {
		if full[i] != nil {
			return false
		}
	}
	return true
}

// mkParty prepares a participant: an enrolled node (auth / rejected) or a node holding an activation token.
func (e *env) mkParty(name, kind, stateName, marker string) (*party, error) {
	srv := e.srv
	w := srv.W
	p := &party{name: name, kind: kind, marker: marker}
	if stateName != "none" {
		p.state, _ = structpb.NewStruct(map[string]any{"name": stateName, "owner": name})
	}
	switch kind {
	case "auth", "rejected":
		n, err := srv.Enroll(name, nil)
		if err != nil {
			return nil, err
		}
		p.store = n.Storage
		if kind == "rejected" {
			if err := srv.RemoveRecord(name); err != nil {
				return nil, err
			}
		}
		p.opts = []nodeenrollment.Option{nodeenrollment.WithExtraAlpnProtos([]string{marker})}
		if p.state != nil {
			p.opts = append(p.opts, nodeenrollment.WithState(p.state))
		}
	case "tokenDup":
		// an already registered key presented with a fresh activation token: refused ("existing node"), whatever came before
		n, err := srv.Enroll(name, nil)
		if err != nil {
			return nil, err
		}
		_, tok, err := registration.CreateServerLedActivationToken(w.Ctx, w.Store, &types.ServerLedRegistrationRequest{}, w.StorageOpts()...)
		if err != nil {
			return nil, err
		}
		fresh, err := types.NewNodeCredentials(w.Ctx, func() nodeenrollment.Storage { s, _ := inmem.New(w.Ctx); return s }(), nodeenrollment.WithActivationToken(tok))
		if err != nil {
			return nil, err
		}
		dup := proto.Clone(n.Creds).(*types.NodeCredentials)
		dup.CertificateBundles = nil
		dup.RegistrationNonce = fresh.RegistrationNonce
		st, _ := inmem.New(w.Ctx)
		if err := dup.Store(w.Ctx, st); err != nil {
			return nil, err
		}
		p.store = st
		p.opts = []nodeenrollment.Option{nodeenrollment.WithActivationToken(tok), nodeenrollment.WithExtraAlpnProtos([]string{marker})}
	case "poll":
		// a node nobody has authorised (yet) polling for its credentials
		st, _ := inmem.New(w.Ctx)
		if _, err := types.NewNodeCredentials(w.Ctx, st); err != nil {
			return nil, err
		}
		p.store = st
		p.opts = []nodeenrollment.Option{nodeenrollment.WithExtraAlpnProtos([]string{marker})}
	case "tokenSame":
		// the identity of the first party (same keys) presenting an activation token
		if e.first == nil {
			return nil, fmt.Errorf("tokenSame needs a first party")
		}
		var topts []nodeenrollment.Option
		if p.state != nil {
			topts = append(topts, nodeenrollment.WithState(p.state))
		}
		id, tok, err := registration.CreateServerLedActivationToken(w.Ctx, w.Store, &types.ServerLedRegistrationRequest{}, w.StorageOpts(topts...)...)
		if err != nil {
			return nil, err
		}
		p.tokId = id
		fresh, err := types.NewNodeCredentials(w.Ctx, func() nodeenrollment.Storage { s, _ := inmem.New(w.Ctx); return s }(), nodeenrollment.WithActivationToken(tok))
		if err != nil {
			return nil, err
		}
		own, err := types.LoadNodeCredentials(w.Ctx, e.first.store, nodeenrollment.CurrentId)
		if err != nil {
			return nil, err
		}
		same := proto.Clone(own).(*types.NodeCredentials)
		same.CertificateBundles = nil
		same.RegistrationNonce = fresh.RegistrationNonce
		st, _ := inmem.New(w.Ctx)
		if err := same.Store(w.Ctx, st); err != nil {
			return nil, err
		}
		p.store = st
		p.opts = []nodeenrollment.Option{nodeenrollment.WithActivationToken(tok), nodeenrollment.WithExtraAlpnProtos([]string{marker})}
	case "baseA", "baseB":
		// a plain TLS client of the application (no library protocol), offering its own ALPN name
		p.marker = map[string]string{"baseA": "app-proto", "baseB": "h2"}[kind] // both are in the non-bare base configuration's list
	case "token":
		var topts []nodeenrollment.Option
		if p.state != nil {
			topts = append(topts, nodeenrollment.WithState(p.state))
		}
		id, tok, err := registration.CreateServerLedActivationToken(w.Ctx, w.Store, &types.ServerLedRegistrationRequest{}, w.StorageOpts(topts...)...)
		if err != nil {
			return nil, err
		}
		p.tokId = id
		st, _ := inmem.New(w.Ctx)
		if _, err := types.NewNodeCredentials(w.Ctx, st, nodeenrollment.WithActivationToken(tok)); err != nil {
			return nil, err
		}
		p.store = st
		p.opts = []nodeenrollment.Option{nodeenrollment.WithActivationToken(tok), nodeenrollment.WithExtraAlpnProtos([]string{marker})}
	}
	return p, nil
}

func (e *env) gateKey(p *party, gate string) string {
	switch gate {
	case "tokenRemove":
		return "tokenRemove:" + p.tokId
	case "niLoad":
		creds, err := types.LoadNodeCredentials(e.srv.W.Ctx, p.store, nodeenrollment.CurrentId)
		if err != nil {
			return gate + ":?"
		}
		kid, _ := nodeenrollment.KeyIdFromPkix(creds.CertificatePublicKeyPkix)
		return "niLoad:" + kid
	case "unwrap1", "unwrap2", "unwrap3", "unwrap4":
		return "unwrap:" + gate[len("unwrap"):]
	case "genBefore", "genAfter":
		creds, err := types.LoadNodeCredentials(e.srv.W.Ctx, p.store, nodeenrollment.CurrentId)
		if err != nil {
			return gate + ":?"
		}
		return gate + ":" + string(creds.CertificatePublicKeyPkix)
	}
	return "none"
}

type dialRes struct {
	err error
}

func (e *env) dial(p *party) dialRes {
	ctx, cancel := context.WithTimeout(context.Background(), 8*time.Second)
	defer cancel()
	if p.kind == "baseA" || p.kind == "baseB" {
		es, _ := e.srv.RawDial(ctx, []string{p.marker}, nil, tls.VersionTLS12)
		if es != "" {
			return dialRes{err: errors.New(es)}
		}
		return dialRes{}
	}
	c, err := protocol.Dial(ctx, p.store, e.srv.Addr, p.opts...)
	if c != nil {
		defer c.Close()
	}
	return dialRes{err: err}
}

// judge works out, from the accept results and server storage, whether party p got the outcome it would get alone.
func (e *env) judge(p *party, d dialRes, results []hs.AcceptResult) (outcome string, ownState, ownProtos bool) {
	w := e.srv.W
	creds, cerr := types.LoadNodeCredentials(w.Ctx, p.store, nodeenrollment.CurrentId)
	var mine *hs.AcceptResult
	for i := range results {
		r := &results[i]
		if r.Kind == "auth" && cerr == nil && bytes.Equal(r.PeerKey, creds.CertificatePublicKeyPkix) {
			mine = r
		}
	}
	ownState, ownProtos = true, true
	if p.kind == "baseA" || p.kind == "baseB" {
		if d.err == nil {
			return "base", true, true
		}
		return "failed", true, true
	}
	if mine != nil {
		has, foreign := false, false
		for _, pr := range mine.Protos {
			if pr == p.marker {
				has = true
			} else if len(pr) > 5 && pr[:5] == "conn-" {
				foreign = true
			}
		}
		ownProtos = has && !foreign
		if p.kind == "auth" {
			if p.state == nil {
				ownState = mine.State == nil
			} else {
				ownState = mine.State != nil && proto.Equal(mine.State, p.state)
			}
		}
	}
	switch p.kind {
	case "auth":
		if mine != nil && d.err == nil {
			return "auth", ownState, ownProtos
		}
		return "failed", ownState, ownProtos
	case "rejected", "tokenDup":
		if mine == nil && d.err != nil {
			return "rejected", true, true
		}
		return "failed", ownState, ownProtos
	case "poll":
		// (an authenticated connection of the same key may exist: the other party's)
		if d.err != nil {
			return "rejected", true, true
		}
		return "failed", true, true
	case "token", "tokenSame":
		if cerr != nil {
			return "failed", false, ownProtos
		}
		kid, _ := nodeenrollment.KeyIdFromPkix(creds.CertificatePublicKeyPkix)
		rec, lerr := types.LoadNodeInformation(w.Ctx, w.Inner, kid, w.StorageOpts()...)
		if lerr != nil || d.err != nil || mine == nil {
			return "failed", false, ownProtos
		}
		if p.state == nil {
			ownState = rec.State == nil
		} else {
			// exactly the state of ITS token: nothing of another connection's token, nothing of the listener's
			ownState = rec.State != nil && proto.Equal(rec.State, p.state)
		}
		return "enrolled", ownState, ownProtos
	}
	return "missing", ownState, ownProtos
}

func (e *env) drain(d time.Duration) []hs.AcceptResult {
	var out []hs.AcceptResult
	for {
		select {
		case r := <-e.results:
			if r.Conn != nil {
				r.Conn.Close()
			}
			out = append(out, r)
		case <-time.After(d):
			return out
		}
	}
}

func want(kind string) string {
	switch kind {
	case "baseA", "baseB":
		return "base"
	case "auth":
		return "auth"
	case "token", "tokenSame":
		return "enrolled"
	}
	return "rejected"
}

// schedule: park A at its gate, run B to completion, release A.
func schedule(op map[string]any, ln *Line, seed int64) {
	lst, _ := op["lstate"].(bool)
	swOn, _ := op["sw"].(bool)
	bare, _ := op["bare"].(bool)
	e, err := newEnv(seed, num(op, "spare"), 2, swOn, lst, bare)
	if err != nil {
		ln.Res, ln.Obs.Msg = "setup-error", err.Error()
		return
	}
	defer e.close()
	a, err := e.mkParty("k1", str(op, "a"), "sA", "conn-A")
	if err != nil {
		ln.Res, ln.Obs.Msg = "setup-error", err.Error()
		return
	}
	e.first = a
	b, err := e.mkParty("k2", str(op, "b"), "sB", "conn-B")
	if err != nil {
		ln.Res, ln.Obs.Msg = "setup-error", err.Error()
		return
	}
	key := e.gateKey(a, str(op, "gate"))
	e.unwraps.Store(0)
	e.g.arm(key)
	ad := make(chan dialRes, 1)
	go func() { ad <- e.dial(a) }()
	if str(op, "gate") == "none" {
		// no gate: A is handled to completion first, then B (sequential interference through shared listener state)
		r := <-ad
		ad <- r
		ln.Obs.Parked = true
	} else {
		select {
		case <-e.g.parked:
			ln.Obs.Parked = true
		case <-time.After(3 * time.Second):
		}
	}
	bres := e.dial(b)
	results := e.drain(250 * time.Millisecond)
	e.g.open(key)
	ares := <-ad
	results = append(results, e.drain(300*time.Millisecond)...)
	ln.Obs.Conns = len(results)
	ln.Obs.AOutcome, ln.Obs.AOwnState, ln.Obs.AOwnProtos = e.judge(a, ares, results)
	ln.Obs.BOutcome, ln.Obs.BOwnState, ln.Obs.BOwnProtos = e.judge(b, bres, results)
	ln.Obs.Sentinel = e.sentinel()
	if ares.err != nil {
		ln.Obs.Msg = "A: " + ares.err.Error()
	}
	if bres.err != nil {
		ln.Obs.Msg += " B: " + bres.err.Error()
	}
	ln.Res = "ok"
	if ln.Obs.AOutcome != want(a.kind) || ln.Obs.BOutcome != want(b.kind) {
		ln.Res = "differs"
	}
}

// mix: free-running concurrent handshakes (race detector + outcome comparison).
func mix(op map[string]any, ln *Line, seed int64) {
	lst, _ := op["lstate"].(bool)
	e, err := newEnv(seed, num(op, "spare"), 4, false, lst)
	if err != nil {
		ln.Res, ln.Obs.Msg = "setup-error", err.Error()
		return
	}
	defer e.close()
	kinds := []string{"auth", "token", "auth", "rejected", "token", "auth"}
	var ps []*party
	for i, k := range kinds {
		p, err := e.mkParty(fmt.Sprintf("k%d", i+1), k, "s", fmt.Sprintf("conn-%d", i+1))
		if err != nil {
			ln.Res, ln.Obs.Msg = "setup-error", err.Error()
			return
		}
		ps = append(ps, p)
	}
	res := make([]dialRes, len(ps))
	var wg sync.WaitGroup
	for i, p := range ps {
		wg.Add(1)
		go func(i int, p *party) { defer wg.Done(); res[i] = e.dial(p) }(i, p)
	}
	wg.Wait()
	results := e.drain(400 * time.Millisecond)
	ln.Obs.Conns = len(results)
	ln.Obs.AOwnState, ln.Obs.BOwnState, ln.Obs.AOwnProtos, ln.Obs.BOwnProtos = true, true, true, true
	ln.Obs.AOutcome, ln.Obs.BOutcome = "as-alone", "as-alone"
	for i, p := range ps {
		out, os, op2 := e.judge(p, res[i], results)
		if out != want(p.kind) {
			ln.Obs.Failures++
			ln.Obs.AOutcome = "failed"
			ln.Obs.Msg += fmt.Sprintf("%s(%s)=%s ", p.name, p.kind, out)
		}
		if !os {
			ln.Obs.AOwnState = false
		}
		if !op2 {
			ln.Obs.AOwnProtos = false
		}
	}
	ln.Obs.Sentinel = e.sentinel()
	ln.Res = "ok"
	if ln.Obs.Failures > 0 {
		ln.Res = "differs"
	}
}

// hung: some step of this process never returned (its goroutine is abandoned); whatever it holds may block every later
// step, so those are not run (and not judged)
var hung atomic.Bool

func Run(bh Behaviour, seed int64) ([]Line, error) {
	var lines []Line
	for i, op := range bh.Ops {
		ln := Line{Tr: bh.Id, I: i + 1, Op: op}
		if hung.Load() {
			ln.Res, ln.Obs.Msg = "setup-error", "not run: an earlier step of this process did not return"
			lines = append(lines, ln)
			continue
		}
		done := make(chan Line, 1)
		go func(ln Line) {
			defer func() {
				if p := recover(); p != nil {
					ln.Res = "panic"
					ln.Obs.Msg = fmt.Sprint(p)
				}
				done <- ln
			}()
			s := world.Uint64Seed(seed, fmt.Sprintf("%s/%d", bh.Id, i))
			switch str(op, "op") {
			case "Schedule":
				schedule(op, &ln, s)
			case "Mix":
				mix(op, &ln, s)
			}
		}(ln)
		select {
		case ln = <-done:
		case <-time.After(40 * time.Second):
			// every dial has an 8 s deadline of its own: a step that is still running after 40 s is stuck inside the library
			hung.Store(true)
			ln.Res = "hung"
			ln.Obs = Obs{AOutcome: "failed", BOutcome: "failed", AOwnState: true, BOwnState: true, AOwnProtos: true, BOwnProtos: true, Sentinel: true, Msg: "step did not return within 40 s"}
		}
		lines = append(lines, ln)
	}
	return lines, nil
}
