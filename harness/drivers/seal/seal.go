// Package seal drives message encryption (C11) and storage sealing (C12).
package seal

import (
	"bytes"
	"context"
	"crypto/ecdh"
	"crypto/rand"
	"fmt"
	"io"
	mrand "math/rand"
	"net"
	"sort"
	"strings"
	"time"

	wrapping "github.com/hashicorp/go-kms-wrapping/v2"
	"github.com/hashicorp/nodeenrollment"
	"github.com/hashicorp/nodeenrollment/protocol"
	"github.com/hashicorp/nodeenrollment/registration"
	"github.com/hashicorp/nodeenrollment/rotation"
	"github.com/hashicorp/nodeenrollment/storage/inmem"
	"github.com/hashicorp/nodeenrollment/types"
	"google.golang.org/protobuf/proto"
	"google.golang.org/protobuf/types/known/timestamppb"

	"verifharness/world"
)

type Behaviour struct {
	Id  string           `json:"id"`
	Ops []map[string]any `json:"ops"`
}

type Obs struct {
	SameSecret bool              `json:"sameSecret"` // node side and server side derive the same secret for the sender pair
	Form       map[string]string `json:"form"`       // stored form per secret field: absent | clear | sealed
	LoadSame   string            `json:"loadSame"`
	LoadNone   string            `json:"loadNone"`
	LoadOther  string            `json:"loadOther"`
	Transplant string            `json:"transplant"`
	Clear      []string          `json:"clear"` // flows: secrets found in clear in bytes handed to storage
	Stores     int               `json:"stores"`
	Msg        string            `json:"msg"`
}

type Line struct {
	Tr  string         `json:"tr"`
	I   int            `json:"i"`
	Op  map[string]any `json:"op"`
	Res string         `json:"res"`
	Obs Obs            `json:"obs"`
}

type srvKey struct{ Priv, Pub []byte }

type run struct {
	w   *world.World
	srv map[string]*srvKey
	rng *mrand.Rand
}

func str(m map[string]any, k string) string {
	if v, ok := m[k].(string); ok {
		return v
	}
	return "none"
}

func (r *run) serverKey(name string) *srvKey {
	if k, ok := r.srv[name]; ok {
		return k
	}
	priv := make([]byte, 32)
	rand.Read(priv)
	pk, _ := ecdh.X25519().NewPrivateKey(priv)
	k := &srvKey{Priv: priv, Pub: pk.PublicKey().Bytes()}
	r.srv[name] = k
	return k
}

type pair struct{ e, g, k string }

func getPair(v any) pair {
	m, _ := v.(map[string]any)
	if m == nil {
		return pair{"none", "none", "none"}
	}
	return pair{str(m, "e"), str(m, "g"), str(m, "k")}
}

func (r *run) prevKey(side string, p pair) *types.EncryptionKey {
	if p.e == "none" {
		return nil
	}
	ck := r.w.EnsureCertKey(p.k)
	if p.k == "k0" {
		ck = &world.CertKey{} // "k0": the EMPTY key id (a record of the previous key that carries no id)
	}
	ek := r.w.EnsureEncKey(p.e)
	sk := r.serverKey(p.g)
	if side == "node" {
		return &types.EncryptionKey{KeyId: ck.KeyId, PrivateKeyPkcs8: ek.Priv, PrivateKeyType: types.KEYTYPE_X25519, PublicKeyPkix: sk.Pub, PublicKeyType: types.KEYTYPE_X25519}
	}
	return &types.EncryptionKey{KeyId: ck.KeyId, PrivateKeyPkcs8: sk.Priv, PrivateKeyType: types.KEYTYPE_X25519, PublicKeyPkix: ek.Pub, PublicKeyType: types.KEYTYPE_X25519}
}

// idMode: how the record of a server-side source is filed: under the key id of its certificate key
// (what the library's flows do), under an application-assigned identifier, or with no id set
// emptyIdSource is a key source whose current key id is empty (the producer contract allows it): no
// associated data is bound on its side
type emptyIdSource struct{ nodeenrollment.X25519KeyProducer }

func (e emptyIdSource) X25519EncryptionKey() (string, []byte, error) {
	_, k, err := e.X25519KeyProducer.X25519EncryptionKey()
	return "", k, err
}

func (r *run) sourceId(side string, cur, prev pair, idMode string) nodeenrollment.X25519KeyProducer {
	src := r.source(side, cur, prev)

	switch x := src.(type) {
	case *types.NodeInformation:
		switch idMode {
		case "keyid":
			x.Id = r.w.EnsureCertKey(cur.k).KeyId
		case "custom":
			x.Id = "application-assigned-record-id"
		}
	case *types.NodeCredentials:
		if idMode != "empty" {
			x.Id = string(nodeenrollment.CurrentId)
		}
	}
	if cur.k == "k0" {
		return emptyIdSource{src}
	}
	return src
}

func (r *run) source(side string, cur, prev pair) nodeenrollment.X25519KeyProducer {
	ck := r.w.EnsureCertKey(cur.k)
	ek := r.w.EnsureEncKey(cur.e)
	sk := r.serverKey(cur.g)
	if side == "node" {
		return &types.NodeCredentials{CertificatePublicKeyPkix: ck.Pkix, EncryptionPrivateKeyBytes: ek.Priv, EncryptionPrivateKeyType: types.KEYTYPE_X25519,
			ServerEncryptionPublicKeyBytes: sk.Pub, ServerEncryptionPublicKeyType: types.KEYTYPE_X25519, PreviousEncryptionKey: r.prevKey(side, prev)}
	}
	return &types.NodeInformation{CertificatePublicKeyPkix: ck.Pkix, ServerEncryptionPrivateKeyBytes: sk.Priv, ServerEncryptionPrivateKeyType: types.KEYTYPE_X25519,
		EncryptionPublicKeyBytes: ek.Pub, EncryptionPublicKeyType: types.KEYTYPE_X25519, PreviousEncryptionKey: r.prevKey(side, prev)}
}

// retainSource keeps what the underlying source derived and returns the same slices on every call.
type retainSource struct {
	id, pid   string
	key, pkey []byte
	err, perr error
}

func retained(src nodeenrollment.X25519KeyProducer) nodeenrollment.X25519KeyProducer {
	if _, ok := src.(*retainSource); ok {
		return src
	}
	rs := &retainSource{}
	rs.id, rs.key, rs.err = src.X25519EncryptionKey()
	rs.pid, rs.pkey, rs.perr = src.PreviousX25519EncryptionKey()
	return rs
}
func (r *retainSource) X25519EncryptionKey() (string, []byte, error)         { return r.id, r.key, r.err }
func (r *retainSource) PreviousX25519EncryptionKey() (string, []byte, error) { return r.pid, r.pkey, r.perr }

// throughStorage stores the key source with a storage wrapper and loads it back (sources that cannot be filed are used as they are).
func (r *run) throughStorage(src nodeenrollment.X25519KeyProducer) nodeenrollment.X25519KeyProducer {
	ctx := r.w.Ctx
	st, _ := inmem.New(ctx)
	opt := nodeenrollment.WithStorageWrapper(r.w.Wrappers["SW"])
	switch x := src.(type) {
	case *types.NodeInformation:
		if x.Id == "" || x.Store(ctx, st, opt) != nil {
			return src
		}
		if back, err := types.LoadNodeInformation(ctx, st, x.Id, opt); err == nil {
			return back
		}
	case *types.NodeCredentials:
		if x.Id == "" {
			return src
		}
		c := proto.Clone(x).(*types.NodeCredentials)
		if len(c.CertificatePrivateKeyPkcs8) == 0 {
			c.CertificatePrivateKeyPkcs8 = r.w.EnsureCertKey("kx").Pkcs8
			c.CertificatePrivateKeyType = types.KEYTYPE_ED25519
		}
		if c.Store(ctx, st, opt) != nil {
			return src
		}
		if back, err := types.LoadNodeCredentials(ctx, st, nodeenrollment.KnownId(c.Id), opt); err == nil {
			return back
		}
	}
	return src
}

func (r *run) message(kind string) (proto.Message, proto.Message) {
	rb := func(n int) []byte { b := make([]byte, n); r.rng.Read(b); return b }
	switch kind {
	case "fetchreq":
		return &types.FetchNodeCredentialsRequest{Bundle: rb(1 + r.rng.Intn(200)), BundleSignature: rb(64)}, new(types.FetchNodeCredentialsRequest)
	case "fetchresp":
		return &types.FetchNodeCredentialsResponse{EncryptedNodeCredentials: rb(1 + r.rng.Intn(400)), ServerEncryptionPublicKeyBytes: rb(32)}, new(types.FetchNodeCredentialsResponse)
	case "creds":
		return &types.NodeCredentials{RegistrationNonce: rb(32), CertificateBundles: []*types.CertificateBundle{{CertificateDer: rb(300)}, {CertificateDer: rb(10)}}}, new(types.NodeCredentials)
	case "tiny":
		return &types.WrappingRegistrationFlowInfo{Nonce: rb(1)}, new(types.WrappingRegistrationFlowInfo)
	case "empty":
		// every field at its zero value: the encoding is zero bytes long
		return new(types.WrappingRegistrationFlowInfo), &types.WrappingRegistrationFlowInfo{Nonce: []byte("must be overwritten or reported")}
	}
	return &types.WrappingRegistrationFlowInfo{Nonce: rb(32), CertificatePublicKeyPkix: rb(44)}, new(types.WrappingRegistrationFlowInfo)
}

func num(m map[string]any, k string) int {
	if v, ok := m[k].(float64); ok {
		return int(v)
	}
	return -1
}

func (r *run) crypt(op map[string]any, ln *Line) {
	s := getPair(op["s"])
	rcur, rprev := getPair(op["rcur"]), getPair(op["rprev"])
	sender := r.sourceId(str(op, "sside"), s, pair{"none", "none", "none"}, str(op, "sid"))
	receiver := r.sourceId(str(op, "rside"), rcur, rprev, str(op, "rid"))
	// the two sides of the sender's agreement derive the same secret and key id
	_, a, _ := r.source("node", s, pair{"none", "none", "none"}).X25519EncryptionKey()
	_, b2, _ := r.source("server", s, pair{"none", "none", "none"}).X25519EncryptionKey()
	ln.Obs.SameSecret = a != nil && bytes.Equal(a, b2)
	if rs, _ := op["rstore"].(bool); rs {
		// the receiver's record went through storage with a storage wrapper (store, then load) before it is used
		receiver = r.throughStorage(receiver)
	}
	if rt, _ := op["retain"].(bool); rt {
		// application-side key sources that agree on the secret once and hand out the SAME slices on every call, used for
		// a first message before the one that is judged
		sender, receiver = retained(sender), retained(receiver)
		m0, o0 := r.message(str(op, "msg"))
		if c0, err := nodeenrollment.EncryptMessage(r.w.Ctx, m0, sender); err == nil {
			_ = nodeenrollment.DecryptMessage(r.w.Ctx, c0, receiver, o0)
		}
	}
	msg, out := r.message(str(op, "msg"))
	if d, _ := op["dirty"].(bool); d {
		// the receiver decrypts into a message value it has used before
		junk, _ := r.message(str(op, "msg"))
		proto.Merge(out, junk)
	}
	ct, err := nodeenrollment.EncryptMessage(r.w.Ctx, msg, sender)
	if err != nil {
		ln.Res = "encrypt-error"
		ln.Obs.Msg = err.Error()
		return
	}
	pick := func(n int) int {
		if i := num(op, "at"); i >= 0 {
			return i % n
		}
		return r.rng.Intn(n)
	}
	switch str(op, "tamper") {
	case "flip":
		i := pick(len(ct) * 8)
		ct = append([]byte(nil), ct...)
		ct[i/8] ^= 1 << (i % 8)
	case "trunc":
		ct = ct[:pick(len(ct))]
	case "random":
		ct = make([]byte, 1+r.rng.Intn(120))
		r.rng.Read(ct)
	case "short":
		blob := &wrapping.BlobInfo{Ciphertext: make([]byte, r.rng.Intn(12)), KeyInfo: &wrapping.KeyInfo{KeyId: "x"}}
		ct, _ = proto.Marshal(blob)
	case "nokeyinfo":
		blob := new(wrapping.BlobInfo)
		if proto.Unmarshal(ct, blob) == nil {
			blob.KeyInfo = nil
			ct, _ = proto.Marshal(blob)
		}
	}
	if len(ct) == 0 {
		ct = []byte{}
	}
	derr := nodeenrollment.DecryptMessage(r.w.Ctx, ct, receiver, out)
	switch {
	case derr != nil:
		ln.Res = "error"
		ln.Obs.Msg = derr.Error()
	case proto.Equal(msg, out):
		ln.Res = "ok-same"
	default:
		ln.Res = "ok-different"
	}
}

// ---------------- storage sealing ----------------

func has(list []string, x string) bool {
	for _, y := range list {
		if y == x {
			return true
		}
	}
	return false
}

func strList(v any) []string {
	out := []string{}
	if arr, ok := v.([]any); ok {
		for _, x := range arr {
			out = append(out, fmt.Sprint(x))
		}
	}
	return out
}

func formOf(stored, secret []byte) string {
	switch {
	case len(stored) == 0:
		return "absent"
	case bytes.Equal(stored, secret) || (len(secret) > 0 && bytes.Contains(stored, secret)):
		return "clear"
	}
	blob := new(wrapping.BlobInfo)
	if proto.Unmarshal(stored, blob) == nil && len(blob.Ciphertext) >= 12 {
		return "sealed"
	}
	return "other"
}

func classify(err error, equal bool) string {
	if err != nil {
		return "error"
	}
	if equal {
		return "equal"
	}
	return "different"
}

// rec builds one record of type t directly, stores it through a recording storage, inspects the stored bytes,
// reloads it with the same / no / another wrapper and tries a transplant from a sibling record.
func (r *run) rec(op map[string]any, ln *Line) {
	w := r.w
	t := str(op, "t")
	present := strList(op["present"])
	wrapOn, _ := op["wrapper"].(bool)
	ctx := w.Ctx
	inner, _ := inmem.New(ctx)
	rs := world.NewRecStorage(inner, false)
	st := rs.AsStorage()
	var opts, other []nodeenrollment.Option
	if wrapOn {
		if rot, _ := op["rot"].(bool); rot {
			// the wrapper's encrypting key is rotated between the store and the first load
			opts = append(opts, nodeenrollment.WithStorageWrapper(world.NewRotWrapper("ROT", r.rng)))
		} else {
			opts = append(opts, nodeenrollment.WithStorageWrapper(w.Wrappers["SW"]))
		}
	}
	if ws, _ := op["withState"].(bool); ws {
		// an application that also passes state along with the wrapper
		opts = append(opts, nodeenrollment.WithState(w.States["s1"]))
	}
	other = append(other, nodeenrollment.WithStorageWrapper(w.Wrappers["SX"]))
	ln.Obs.Form = map[string]string{}
	rb := func(n int) []byte { b := make([]byte, n); rand.Read(b); return b }
	switch t {
	case "roots":
		roots, err := w.InitRoots()
		if err != nil {
			panic(err)
		}
		plain, _ := types.LoadRootCertificates(ctx, w.Inner, w.StorageOpts()...)
		_ = roots
		if err := plain.Store(ctx, st, opts...); err != nil {
			ln.Res = "store-error"
			ln.Obs.Msg = err.Error()
			return
		}
		raw := &types.RootCertificates{Id: nodeenrollment.RootsMessageId}
		_ = inner.Load(ctx, raw)
		ln.Obs.Form["cur.priv"] = formOf(raw.Current.PrivateKeyPkcs8, plain.Current.PrivateKeyPkcs8)
		ln.Obs.Form["next.priv"] = formOf(raw.Next.PrivateKeyPkcs8, plain.Next.PrivateKeyPkcs8)
		l1, e1 := types.LoadRootCertificates(ctx, st, opts...)
		ln.Obs.LoadSame = classify(e1, e1 == nil && bytes.Equal(l1.Current.PrivateKeyPkcs8, plain.Current.PrivateKeyPkcs8) && bytes.Equal(l1.Next.PrivateKeyPkcs8, plain.Next.PrivateKeyPkcs8) && bytes.Equal(l1.Current.CertificateDer, plain.Current.CertificateDer))
		_, e2 := types.LoadRootCertificates(ctx, st)
		ln.Obs.LoadNone = classify(e2, false)
		_, e3 := types.LoadRootCertificates(ctx, st, other...)
		ln.Obs.LoadOther = classify(e3, false)
		// transplant: the sealed key of next into current
		raw.Current.PrivateKeyPkcs8 = raw.Next.PrivateKeyPkcs8
		_ = inner.Store(ctx, raw)
		_, e4 := types.LoadRootCertificates(ctx, st, opts...)
		ln.Obs.Transplant = classify(e4, false)
		if e4 == nil {
			ln.Obs.Transplant = "opened"
		}
	case "nodeinfo":
		mk := func(k string) *types.NodeInformation {
			ck := w.EnsureCertKey(k)
			ni := &types.NodeInformation{Id: ck.KeyId, CertificatePublicKeyPkix: ck.Pkix, CertificatePublicKeyType: types.KEYTYPE_ED25519,
				EncryptionPublicKeyBytes: w.EnsureEncKey("e1").Pub, EncryptionPublicKeyType: types.KEYTYPE_X25519,
				ServerEncryptionPrivateKeyBytes: rb(32), ServerEncryptionPrivateKeyType: types.KEYTYPE_X25519, RegistrationNonce: rb(32)}
			if has(present, "prev.priv") {
				ni.PreviousEncryptionKey = &types.EncryptionKey{KeyId: "old", PrivateKeyPkcs8: rb(32), PrivateKeyType: types.KEYTYPE_X25519, PublicKeyPkix: rb(32), PublicKeyType: types.KEYTYPE_X25519}
			}
			return ni
		}
		a, b := mk("k1"), mk("k2")
		if err := a.Store(ctx, st, opts...); err != nil {
			ln.Res = "store-error"
			ln.Obs.Msg = err.Error()
			return
		}
		_ = b.Store(ctx, st, opts...)
		raw := &types.NodeInformation{Id: a.Id}
		_ = inner.Load(ctx, raw)
		ln.Obs.Form["srv.priv"] = formOf(raw.ServerEncryptionPrivateKeyBytes, a.ServerEncryptionPrivateKeyBytes)
		ln.Obs.Form["prev.priv"] = "absent"
		if a.PreviousEncryptionKey != nil {
			ln.Obs.Form["prev.priv"] = formOf(raw.GetPreviousEncryptionKey().GetPrivateKeyPkcs8(), a.PreviousEncryptionKey.PrivateKeyPkcs8)
		}
		l1, e1 := types.LoadNodeInformation(ctx, st, a.Id, opts...)
		ln.Obs.LoadSame = classify(e1, e1 == nil && proto.Equal(l1, a))
		_, e2 := types.LoadNodeInformation(ctx, st, a.Id)
		ln.Obs.LoadNone = classify(e2, false)
		_, e3 := types.LoadNodeInformation(ctx, st, a.Id, other...)
		ln.Obs.LoadOther = classify(e3, false)
		if rk, _ := op["rekey"].(bool); rk && wrapOn && e1 == nil {
			// the deployment re-keys its storage wrapper: a NEW key that reports the SAME key id; the loaded record is
			// stored again with it.  Loading with the new wrapper gives the record back, the retired one no longer opens it.
			oldW, _ := nodeenrollment.GetOpts(opts...)
			newW := world.NewSafeAead("SW", r.rng)
			if oldW.WithStorageWrapper != nil {
				if id, _ := oldW.WithStorageWrapper.KeyId(ctx); id != "" && id != "SW" {
					newW = world.NewSafeAead(id, r.rng)
				}
			}
			if err := l1.Store(ctx, st, nodeenrollment.WithStorageWrapper(newW)); err != nil {
				ln.Obs.LoadSame = "error"
			} else {
				l5, e5 := types.LoadNodeInformation(ctx, st, a.Id, nodeenrollment.WithStorageWrapper(newW))
				ln.Obs.LoadSame = classify(e5, e5 == nil && proto.Equal(l5, a))
				if _, e6 := types.LoadNodeInformation(ctx, st, a.Id, opts...); e6 == nil {
					ln.Obs.LoadOther = "equal" // the retired wrapper still opens what was stored with the new one
				}
				// put the original sealing back for the transplant step
				_ = l1.Store(ctx, st, opts...)
			}
		}
		rawB := &types.NodeInformation{Id: b.Id}
		_ = inner.Load(ctx, rawB)
		raw.ServerEncryptionPrivateKeyBytes = rawB.ServerEncryptionPrivateKeyBytes
		_ = inner.Store(ctx, raw)
		_, e4 := types.LoadNodeInformation(ctx, st, a.Id, opts...)
		ln.Obs.Transplant = classify(e4, false)
		if e4 == nil {
			ln.Obs.Transplant = "opened"
		}
	case "nodecreds":
		mk := func(k string, id nodeenrollment.KnownId) *types.NodeCredentials {
			ck := w.EnsureCertKey(k)
			nc := &types.NodeCredentials{Id: string(id), CertificatePublicKeyPkix: ck.Pkix, CertificatePrivateKeyPkcs8: ck.Pkcs8, CertificatePrivateKeyType: types.KEYTYPE_ED25519,
				EncryptionPrivateKeyBytes: rb(32), EncryptionPrivateKeyType: types.KEYTYPE_X25519}
			if has(present, "nonce") {
				nc.RegistrationNonce = rb(32)
				if lt, _ := op["longNonce"].(bool); lt {
					// server-led registration: the node-side nonce is the decoded activation token, not 32 bytes
					tn, _ := proto.Marshal(&types.ServerLedActivationTokenNonce{Nonce: rb(32), HmacKeyBytes: rb(32)})
					nc.RegistrationNonce = tn
				}
			}
			if has(present, "prev.priv") {
				nc.PreviousEncryptionKey = &types.EncryptionKey{KeyId: "old", PrivateKeyPkcs8: rb(32), PrivateKeyType: types.KEYTYPE_X25519, PublicKeyPkix: rb(32), PublicKeyType: types.KEYTYPE_X25519}
			}
			return nc
		}
		a, b := mk("k1", nodeenrollment.CurrentId), mk("k2", nodeenrollment.NextId)
		if err := a.Store(ctx, st, opts...); err != nil {
			ln.Res = "store-error"
			ln.Obs.Msg = err.Error()
			return
		}
		_ = b.Store(ctx, st, opts...)
		raw := &types.NodeCredentials{Id: a.Id}
		_ = inner.Load(ctx, raw)
		ln.Obs.Form["cert.priv"] = formOf(raw.CertificatePrivateKeyPkcs8, a.CertificatePrivateKeyPkcs8)
		ln.Obs.Form["enc.priv"] = formOf(raw.EncryptionPrivateKeyBytes, a.EncryptionPrivateKeyBytes)
		ln.Obs.Form["nonce"] = formOf(raw.RegistrationNonce, a.RegistrationNonce)
		ln.Obs.Form["prev.priv"] = "absent"
		if a.PreviousEncryptionKey != nil {
			ln.Obs.Form["prev.priv"] = formOf(raw.GetPreviousEncryptionKey().GetPrivateKeyPkcs8(), a.PreviousEncryptionKey.PrivateKeyPkcs8)
		}
		l1, e1 := types.LoadNodeCredentials(ctx, st, nodeenrollment.CurrentId, opts...)
		ln.Obs.LoadSame = classify(e1, e1 == nil && proto.Equal(l1, a))
		_, e2 := types.LoadNodeCredentials(ctx, st, nodeenrollment.CurrentId)
		ln.Obs.LoadNone = classify(e2, false)
		_, e3 := types.LoadNodeCredentials(ctx, st, nodeenrollment.CurrentId, other...)
		ln.Obs.LoadOther = classify(e3, false)
		rawB := &types.NodeCredentials{Id: b.Id}
		_ = inner.Load(ctx, rawB)
		saved := proto.Clone(raw).(*types.NodeCredentials)
		raw.EncryptionPrivateKeyBytes = rawB.EncryptionPrivateKeyBytes
		_ = inner.Store(ctx, raw)
		_, e4 := types.LoadNodeCredentials(ctx, st, nodeenrollment.CurrentId, opts...)
		ln.Obs.Transplant = classify(e4, false)
		if e4 == nil {
			ln.Obs.Transplant = "opened"
		}
		// a sibling filed under the SAME id ("current") in another node's storage
		inner2, _ := inmem.New(ctx)
		c2 := mk("k3", nodeenrollment.CurrentId)
		if err := c2.Store(ctx, inner2, opts...); err == nil && wrapOn {
			rawC := &types.NodeCredentials{Id: c2.Id}
			_ = inner2.Load(ctx, rawC)
			for _, field := range []string{"cert", "enc", "nonce"} {
				t2 := proto.Clone(saved).(*types.NodeCredentials)
				switch field {
				case "cert":
					t2.CertificatePrivateKeyPkcs8 = rawC.CertificatePrivateKeyPkcs8
				case "enc":
					t2.EncryptionPrivateKeyBytes = rawC.EncryptionPrivateKeyBytes
				case "nonce":
					if len(rawC.RegistrationNonce) == 0 || len(t2.RegistrationNonce) == 0 {
						continue
					}
					t2.RegistrationNonce = rawC.RegistrationNonce
				}
				_ = inner.Store(ctx, t2)
				if _, e5 := types.LoadNodeCredentials(ctx, st, nodeenrollment.CurrentId, opts...); e5 == nil {
					ln.Obs.Transplant = "opened"
				}
			}
		}
	case "token":
		mk := func(id string) *types.ServerLedActivationToken {
			return &types.ServerLedActivationToken{Id: id, CreationTime: timestamppb.Now()}
		}
		a, b := mk("tok-a"), mk("tok-b")
		if err := a.Store(ctx, st, opts...); err != nil {
			ln.Res = "store-error"
			ln.Obs.Msg = err.Error()
			return
		}
		_ = b.Store(ctx, st, opts...)
		raw := &types.ServerLedActivationToken{Id: a.Id}
		_ = inner.Load(ctx, raw)
		tb, _ := proto.Marshal(a.CreationTime)
		f := formOf(raw.CreationTimeMarshaled, tb)
		if raw.CreationTime != nil {
			f = "clear" // the plain timestamp field is stored next to the sealed copy
		}
		ln.Obs.Form["creation_time"] = f
		l1, e1 := types.LoadServerLedActivationToken(ctx, st, a.Id, opts...)
		ln.Obs.LoadSame = classify(e1, e1 == nil && l1.CreationTime.AsTime().Equal(a.CreationTime.AsTime()))
		_, e2 := types.LoadServerLedActivationToken(ctx, st, a.Id)
		ln.Obs.LoadNone = classify(e2, false)
		_, e3 := types.LoadServerLedActivationToken(ctx, st, a.Id, other...)
		ln.Obs.LoadOther = classify(e3, false)
		rawB := &types.ServerLedActivationToken{Id: b.Id}
		_ = inner.Load(ctx, rawB)
		raw.CreationTimeMarshaled = rawB.CreationTimeMarshaled
		_ = inner.Store(ctx, raw)
		_, e4 := types.LoadServerLedActivationToken(ctx, st, a.Id, opts...)
		ln.Obs.Transplant = classify(e4, false)
		if e4 == nil {
			ln.Obs.Transplant = "opened"
		}
	}
	if !wrapOn {
		ln.Obs.Transplant = "n/a"
	}
	ln.Res = "ok"
}

// flow runs a whole library flow with a storage wrapper on server and node side and searches every
// message handed to storage for the secrets of the run.
func (r *run) flow(op map[string]any, ln *Line) {
	w := r.w
	name := str(op, "name")
	ctx := w.Ctx
	sopts := []nodeenrollment.Option{nodeenrollment.WithStorageWrapper(w.Wrappers["SW"])}
	if ws, _ := op["withState"].(bool); ws {
		sopts = append(sopts, nodeenrollment.WithState(w.States["s1"]))
	}
	srvInner, _ := inmem.New(ctx)
	srvRec := world.NewRecStorage(srvInner, false)
	srv := srvRec.AsStorage()
	nodeInner, _ := inmem.New(ctx)
	nodeRec := world.NewRecStorage(nodeInner, false)
	srvRec.Retain, nodeRec.Retain = true, true
	node := nodeRec.AsStorage()
	secrets := map[string][]byte{}
	add := func(n string, b []byte) {
		if len(b) >= 8 {
			secrets[n] = append([]byte(nil), b...)
		}
	}
	fail := func(err error) {
		ln.Res = "flow-error"
		ln.Obs.Msg = err.Error()
	}
	roots, err := registrationRoots(ctx, srv, sopts)
	if err != nil {
		fail(err)
		return
	}
	add("root.cur.priv", roots.Current.PrivateKeyPkcs8)
	add("root.next.priv", roots.Next.PrivateKeyPkcs8)
	var tokenStr string
	if name == "token" || name == "dialtoken" {
		_, tokenStr, err = registration.CreateServerLedActivationToken(ctx, srv, &types.ServerLedRegistrationRequest{}, sopts...)
		if err != nil {
			fail(err)
			return
		}
	}
	nopts := append([]nodeenrollment.Option{}, sopts...)
	if tokenStr != "" {
		nopts = append(nopts, nodeenrollment.WithActivationToken(tokenStr))
	}
	creds, err := types.NewNodeCredentials(ctx, node, nopts...)
	if err != nil {
		fail(err)
		return
	}
	add("node.cert.priv", creds.CertificatePrivateKeyPkcs8)
	add("node.enc.priv", creds.EncryptionPrivateKeyBytes)
	add("node.nonce", creds.RegistrationNonce)
	req, err := creds.CreateFetchNodeCredentialsRequest(ctx, nopts...)
	if err != nil {
		fail(err)
		return
	}
	preCreds := proto.Clone(creds).(*types.NodeCredentials) // the node's credentials as they are before any response is handled
	if name == "dial" || name == "dialtoken" {
		// registration driven by protocol.Dial against a real InterceptingListener: the node's first dial fetches
		// and stores its credentials, then authenticates
		if name == "dial" {
			if _, err := registration.AuthorizeNode(ctx, srv, req, sopts...); err != nil {
				fail(err)
				return
			}
		}
		base, err := net.Listen("tcp", "127.0.0.1:0")
		if err != nil {
			fail(err)
			return
		}
		il, err := protocol.NewInterceptingListener(&protocol.InterceptingListenerConfiguration{Context: ctx, Storage: srv, BaseListener: base, Options: sopts})
		if err != nil {
			base.Close()
			fail(err)
			return
		}
		go func() {
			for {
				c, err := il.Accept()
				if err != nil {
					if te, ok := err.(interface{ Temporary() bool }); ok && te.Temporary() {
						continue
					}
					return
				}
				go func() { io.Copy(io.Discard, c); c.Close() }()
			}
		}()
		dctx, cancel := context.WithTimeout(ctx, 10*time.Second)
		conn, derr := protocol.Dial(dctx, node, base.Addr().String(), nopts...)
		cancel()
		if conn != nil {
			conn.Close()
		}
		il.Close()
		if derr != nil {
			fail(derr)
			return
		}
		// a second load with the wrapper must give the keys back
		back, lerr := types.LoadNodeCredentials(ctx, node, nodeenrollment.CurrentId, nopts...)
		if lerr != nil || !bytes.Equal(back.CertificatePrivateKeyPkcs8, creds.CertificatePrivateKeyPkcs8) || !bytes.Equal(back.EncryptionPrivateKeyBytes, creds.EncryptionPrivateKeyBytes) {
			fail(fmt.Errorf("stored node credentials do not load back: %v", lerr))
			return
		}
		kid, _ := nodeenrollment.KeyIdFromPkix(creds.CertificatePublicKeyPkix)
		if ni, err := types.LoadNodeInformation(ctx, srv, kid, sopts...); err == nil {
			add("server.enc.priv", ni.ServerEncryptionPrivateKeyBytes)
		}
		name = "done-by-dial"
	}
	if name != "token" && name != "done-by-dial" {
		if _, err := registration.AuthorizeNode(ctx, srv, req, sopts...); err != nil {
			fail(err)
			return
		}
	}
	if name != "done-by-dial" {
		resp, err := registration.FetchNodeCredentials(ctx, srv, req, sopts...)
		if err != nil {
			fail(err)
			return
		}
		if _, err := creds.HandleFetchNodeCredentialsResponse(ctx, node, resp, nopts...); err != nil {
			fail(err)
			return
		}
	}
	_, keyId, _ := nodeenrollment.SubjectKeyInfoAndKeyIdFromPubKey(w.EnsureCertKey("kx").Pub)
	_ = keyId
	kid, _ := nodeenrollment.KeyIdFromPkix(creds.CertificatePublicKeyPkix)
	ni, err := types.LoadNodeInformation(ctx, srv, kid, sopts...)
	if err != nil {
		fail(err)
		return
	}
	add("server.enc.priv", ni.ServerEncryptionPrivateKeyBytes)
	if name == "rotateNamed" {
		// credential rotation in which the new credentials name the previous certificate key (a field the request format
		// provides); neither side asks for the previous encryption key to be retained
		newCreds, err := types.NewNodeCredentials(ctx, node, append(sopts, nodeenrollment.WithSkipStorage(true))...)
		if err != nil {
			fail(err)
			return
		}
		newCreds.PreviousCertificatePublicKeyPkix = creds.CertificatePublicKeyPkix
		add("node2.cert.priv", newCreds.CertificatePrivateKeyPkcs8)
		add("node2.enc.priv", newCreds.EncryptionPrivateKeyBytes)
		req2, err := newCreds.CreateFetchNodeCredentialsRequest(ctx)
		if err != nil {
			fail(err)
			return
		}
		if _, err := registration.AuthorizeNode(ctx, srv, req2, sopts...); err != nil {
			fail(err)
			return
		}
		resp2, err := registration.FetchNodeCredentials(ctx, srv, req2, sopts...)
		if err != nil {
			fail(err)
			return
		}
		if _, err := newCreds.HandleFetchNodeCredentialsResponse(ctx, node, resp2, sopts...); err != nil {
			fail(err)
			return
		}
		kid2, _ := nodeenrollment.KeyIdFromPkix(newCreds.CertificatePublicKeyPkix)
		if ni2, err := types.LoadNodeInformation(ctx, srv, kid2, sopts...); err == nil {
			add("server2.enc.priv", ni2.ServerEncryptionPrivateKeyBytes)
		}
	}
	if name == "rotate" {
		// credential rotation on both sides, each retaining the previous key as the library offers
		newCreds, err := types.NewNodeCredentials(ctx, node, append(sopts, nodeenrollment.WithSkipStorage(true))...)
		if err != nil {
			fail(err)
			return
		}
		add("node2.cert.priv", newCreds.CertificatePrivateKeyPkcs8)
		add("node2.enc.priv", newCreds.EncryptionPrivateKeyBytes)
		add("node2.nonce", newCreds.RegistrationNonce)
		req2, _ := newCreds.CreateFetchNodeCredentialsRequest(ctx)
		if _, err := registration.AuthorizeNode(ctx, srv, req2, sopts...); err != nil {
			fail(err)
			return
		}
		resp2, err := registration.FetchNodeCredentials(ctx, srv, req2, sopts...)
		if err != nil {
			fail(err)
			return
		}
		if err := newCreds.SetPreviousEncryptionKey(creds); err != nil {
			fail(err)
			return
		}
		if _, err := newCreds.HandleFetchNodeCredentialsResponse(ctx, node, resp2, sopts...); err != nil {
			fail(err)
			return
		}
		kid2, _ := nodeenrollment.KeyIdFromPkix(newCreds.CertificatePublicKeyPkix)
		ni2, err := types.LoadNodeInformation(ctx, srv, kid2, sopts...)
		if err != nil {
			fail(err)
			return
		}
		add("server2.enc.priv", ni2.ServerEncryptionPrivateKeyBytes)
		if err := ni2.SetPreviousEncryptionKey(ni); err != nil {
			fail(err)
			return
		}
		if err := ni2.Store(ctx, srv, sopts...); err != nil {
			fail(err)
			return
		}
	}
	if name == "tokenRefused" {
		// the registered node presents a second, valid activation token: the token is consumed and the fetch refused
		_, tok2, err := registration.CreateServerLedActivationToken(ctx, srv, &types.ServerLedRegistrationRequest{}, sopts...)
		if err != nil {
			fail(err)
			return
		}
		req2, err := preCreds.CreateFetchNodeCredentialsRequest(ctx, nodeenrollment.WithActivationToken(tok2))
		if err != nil {
			fail(err)
			return
		}
		if resp2, err := registration.FetchNodeCredentials(ctx, srv, req2, sopts...); err == nil && resp2 != nil && len(resp2.EncryptedNodeCredentials) > 0 {
			fail(fmt.Errorf("a second token enrolled an already registered key"))
			return
		}
	}
	found := map[string]bool{}
	count := 0
	for _, rs := range []*world.RecStorage{srvRec, nodeRec} {
		for _, o := range rs.Since(0) {
			if o.Op != "Store" {
				continue
			}
			count++
			// what a write-behind back end would serialise after Store has returned: the same object, later
			var late []byte
			if o.Msg != nil {
				late, _ = proto.Marshal(o.Msg)
			}
			for n, s := range secrets {
				if strings.HasSuffix(n, ".nonce") && o.Type != "NodeCredentials" {
					continue
				}
				if bytes.Contains(late, s) && !bytes.Contains(o.Bytes, s) {
					nn := strings.Replace(strings.Replace(n, "node2.", "node.", 1), "server2.", "server.", 1)
					found[o.Type+":"+nn+"(object-changed-after-store)"] = true
				}
			}
			for n, s := range secrets {
				// the node-side registration nonce is a secret of the node's own record only: the server
				// record necessarily holds the nonce it was authorised with
				if strings.HasSuffix(n, ".nonce") && o.Type != "NodeCredentials" {
					continue
				}
				if bytes.Contains(o.Bytes, s) {
					nn := strings.Replace(strings.Replace(n, "node2.", "node.", 1), "server2.", "server.", 1)
					found[o.Type+":"+nn] = true
				}
			}
			if o.Type == "ServerLedActivationToken" {
				tk := new(types.ServerLedActivationToken)
				if proto.Unmarshal(o.Bytes, tk) == nil && tk.CreationTime != nil {
					found["ServerLedActivationToken:creation_time"] = true
				}
			}
		}
	}
	ln.Obs.Stores = count
	for k := range found {
		ln.Obs.Clear = append(ln.Obs.Clear, k)
	}
	sort.Strings(ln.Obs.Clear)
	ln.Res = "ok"
}

func Run(bh Behaviour, seed int64) ([]Line, error) {
	w, err := world.New(world.Config{Seed: world.Uint64Seed(seed, bh.Id)})
	if err != nil {
		return nil, err
	}
	r := &run{w: w, srv: map[string]*srvKey{}, rng: mrand.New(mrand.NewSource(world.Uint64Seed(seed, "seal/"+bh.Id)))}
	var lines []Line
	for i, op := range bh.Ops {
		ln := Line{Tr: bh.Id, I: i + 1, Op: op, Obs: Obs{Form: map[string]string{}, Clear: []string{}}}
		func() {
			defer func() {
				if p := recover(); p != nil {
					ln.Res = "panic"
					ln.Obs.Msg = fmt.Sprint(p)
				}
			}()
			switch str(op, "op") {
			case "Crypt":
				r.crypt(op, &ln)
			case "Rec":
				r.rec(op, &ln)
			case "Flow":
				r.flow(op, &ln)
			}
		}()
		if ln.Obs.Clear == nil {
			ln.Obs.Clear = []string{}
		}
		lines = append(lines, ln)
	}
	return lines, nil
}

func registrationRoots(ctx context.Context, st nodeenrollment.Storage, opts []nodeenrollment.Option) (*types.RootCertificates, error) {
	return rotation.RotateRootCertificates(ctx, st, opts...)
}
