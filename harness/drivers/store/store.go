// Package store drives the storage back ends (in-memory, file, store-once)
// with abstract operation sequences and concurrent client programs (C19).
package store

import (
	"verifharness/world"
	"os"
	"path/filepath"
	"context"
	"errors"
	"fmt"
	"sort"
	"strings"
	"sync"

	"github.com/hashicorp/nodeenrollment"
	"github.com/hashicorp/nodeenrollment/storage/file"
	"github.com/hashicorp/nodeenrollment/storage/inmem"
	teststore "github.com/hashicorp/nodeenrollment/storage/testing"
	"github.com/hashicorp/nodeenrollment/types"
	"google.golang.org/protobuf/proto"
)

type Behaviour struct {
	Id      string             `json:"id"`
	Cfg     map[string]any     `json:"cfg"` // backend: inmem | file | storeonce ; mode: seq | conc
	Ops     []map[string]any   `json:"ops"`
	Clients [][]map[string]any `json:"clients"`
}

type Line struct {
	Tr   string            `json:"tr"`
	I    int               `json:"i"`
	Cfg  map[string]any    `json:"cfg"`
	Ev   string            `json:"ev"` // seq: "Call"; conc: Reset | Inv | Ret
	C    string            `json:"c"`
	Op   map[string]any    `json:"op"`
	Res  string            `json:"res"`
	Val  string            `json:"val"`
	Ids  []string          `json:"ids"`
	Pre  map[string]string `json:"pre"`
	Post map[string]string `json:"post"`
	Err  string            `json:"err"`
}

var known = []string{"ni", "nc", "rc", "tk"}
var ids = []string{"a", "b"}

// concrete encodings of the abstract values have different lengths, so that
// overwriting a long record with a short one (and back) is exercised
func enc(v string) string {
	if v == "v2" {
		// \x07 is valid UTF-8 but an invalid protobuf tag (wire type 7): stale bytes left behind a shorter
		// record cannot be mistaken for unknown fields
		return "v2" + strings.Repeat("\x07", 120)
	}
	return v
}

func dec(s string) string {
	if s == enc("v2") {
		return "v2"
	}
	return s
}

func msgFor(t, id, v string) nodeenrollment.MessageWithId {
	raw := v
	v = enc(v)
	// besides the scalar that names the value, every stored message carries a repeated field (where the type has one), so
	// that a load that MERGES into its destination instead of replacing it shows
	var bundles []*types.CertificateBundle
	if raw != "" {
		bundles = []*types.CertificateBundle{{CertificateDer: []byte("der-" + raw)}}
	}
	switch t {
	case "ni":
		return &types.NodeInformation{Id: id, WrappingKeyId: v, CertificateBundles: bundles}
	case "nc":
		return &types.NodeCredentials{Id: id, WrappingKeyId: v, CertificateBundles: bundles}
	case "rc":
		return &types.RootCertificates{Id: id, WrappingKeyId: v}
	case "tk":
		return &types.ServerLedActivationToken{Id: id, WrappingKeyId: v}
	case "bad":
		return &types.RootCertificate{Id: id}
	}
	return (*types.NodeInformation)(nil)
}

// dirtyFor is a destination that was used before: same type, the requested id, other content in every other field
func dirtyFor(t, id string) nodeenrollment.MessageWithId {
	switch t {
	case "ni":
		return &types.NodeInformation{Id: id, WrappingKeyId: "stale", RegistrationNonce: []byte("stale"), CertificateBundles: []*types.CertificateBundle{{CertificateDer: []byte("stale")}}}
	case "nc":
		return &types.NodeCredentials{Id: id, WrappingKeyId: "stale", RegistrationNonce: []byte("stale"), CertificateBundles: []*types.CertificateBundle{{CertificateDer: []byte("stale")}}}
	case "rc":
		return &types.RootCertificates{Id: id, WrappingKeyId: "stale", Current: &types.RootCertificate{Id: "stale"}}
	case "tk":
		return &types.ServerLedActivationToken{Id: id, WrappingKeyId: "stale", CreationTimeMarshaled: []byte("stale")}
	}
	return msgFor(t, id, "")
}

// valOfExact: the value name, provided the message is EXACTLY what storing that value stored
func valOfExact(t, id string, m nodeenrollment.MessageWithId) string {
	v := valOf(m)
	if v == "absent" {
		return v
	}
	if !proto.Equal(m, msgFor(t, id, v)) {
		return "corrupt"
	}
	return v
}

func valOf(m nodeenrollment.MessageWithId) string {
	switch x := m.(type) {
	case *types.NodeInformation:
		return dec(x.WrappingKeyId)
	case *types.NodeCredentials:
		return dec(x.WrappingKeyId)
	case *types.RootCertificates:
		return dec(x.WrappingKeyId)
	case *types.ServerLedActivationToken:
		return dec(x.WrappingKeyId)
	}
	return "absent"
}

func newBackend(ctx context.Context, name string) (nodeenrollment.Storage, func(), error) {
	switch name {
	case "file":
		s, err := file.New(ctx)
		if err != nil {
			return nil, nil, err
		}
		return s, func() { _ = s.Cleanup(ctx) }, nil
	case "file2":
		// two handles (two processes) on one directory; the driver picks the handle per operation
		sw, cleanup, err := world.NewSwitchStorage(2)
		if err != nil {
			return nil, nil, err
		}
		return sw, cleanup, nil
	case "filemeta":
		// the file back end in a base directory whose NAME contains glob metacharacters, next to a sibling directory
		// that such a pattern would also match
		tmp, err := os.MkdirTemp("", "nevstore")
		if err != nil {
			return nil, nil, err
		}
		_ = os.MkdirAll(filepath.Join(tmp, "worker1 a-b"), 0o700)
		s, err := file.New(ctx, file.WithBaseDirectory(filepath.Join(tmp, "worker[1] a?b*")))
		return s, func() { _ = os.RemoveAll(tmp) }, err
	case "storeonce":
		s, err := teststore.New(ctx)
		return s, func() {}, err
	}
	s, err := inmem.New(ctx)
	return s, func() {}, err
}

func project(ctx context.Context, st nodeenrollment.Storage) map[string]string {
	out := map[string]string{}
	for _, t := range known {
		for _, id := range ids {
			m := msgFor(t, id, "")
			if err := st.Load(ctx, m); err != nil {
				out[t+"_"+id] = "absent"
			} else {
				out[t+"_"+id] = valOf(m)
			}
		}
	}
	return out
}

func str(m map[string]any, k string) string {
	if v, ok := m[k].(string); ok {
		return v
	}
	return ""
}

// exec performs one abstract operation and classifies the outcome.
func exec(ctx context.Context, st nodeenrollment.Storage, op map[string]any) (res, val string, lst []string, errText string) {
	defer func() {
		if p := recover(); p != nil {
			res, errText = "panic", fmt.Sprint(p)
		}
	}()
	val = "absent"
	lst = []string{}
	t, id, v := str(op, "t"), str(op, "id"), str(op, "v")
	classify := func(err error) string {
		var dre *types.DuplicateRecordError
		switch {
		case err == nil:
			return "ok"
		case errors.Is(err, nodeenrollment.ErrNotFound):
			return "notfound"
		case errors.As(err, &dre) || errors.As(err, &types.DuplicateRecordError{}):
			return "dup"
		}
		return "error"
	}
	var err error
	switch str(op, "op") {
	case "Store":
		if t == "nil" {
			err = st.Store(ctx, nil)
		} else {
			err = st.Store(ctx, msgFor(t, id, v))
		}
	case "Load":
		if t == "nil" {
			err = st.Load(ctx, nil)
		} else {
			m := msgFor(t, id, "")
			if d, _ := op["dirty"].(bool); d {
				m = dirtyFor(t, id)
			}
			err = st.Load(ctx, m)
			if err == nil {
				val = valOfExact(t, id, m)
			}
		}
	case "Remove":
		if t == "nil" {
			err = st.Remove(ctx, nil)
		} else {
			err = st.Remove(ctx, msgFor(t, id, ""))
		}
	case "List":
		var m proto.Message
		switch t {
		case "nil":
			m = nil
		case "bad":
			m = &types.RootCertificate{}
		default:
			m = msgFor(t, "", "")
		}
		var got []string
		got, err = st.List(ctx, m)
		if err == nil {
			lst = append(lst, got...)
			sort.Strings(lst)
		}
	}
	if err != nil {
		errText = err.Error()
	}
	return classify(err), val, lst, errText
}

// burst: rounds of a fresh in-memory storage on which n goroutines, released together, each perform the FIRST store of
// a type with their own id; afterwards every id must load and be listed.
func burst(ctx context.Context, op map[string]any) (string, string) {
	n, rounds := 8, 400
	if v, ok := op["rounds"].(float64); ok {
		rounds = int(v)
	}
	t := fmt.Sprint(op["t"])
	for r := 0; r < rounds; r++ {
		st, err := inmem.New(ctx)
		if err != nil {
			return "error", err.Error()
		}
		start := make(chan struct{})
		var wg sync.WaitGroup
		errs := make([]error, n)
		for i := 0; i < n; i++ {
			wg.Add(1)
			go func(i int) {
				defer wg.Done()
				<-start
				errs[i] = st.Store(ctx, msgFor(t, fmt.Sprintf("b%d", i), "v1"))
			}(i)
		}
		close(start)
		wg.Wait()
		ids, lerr := st.List(ctx, msgFor(t, "", "")) // not every type can be listed
		for i := 0; i < n; i++ {
			if errs[i] != nil {
				continue
			}
			id := fmt.Sprintf("b%d", i)
			if err := st.Load(ctx, msgFor(t, id, "")); err != nil {
				return "lost", fmt.Sprintf("round %d: store of %s acknowledged, load: %v", r, id, err)
			}
			found := false
			for _, x := range ids {
				found = found || x == id
			}
			if !found && lerr == nil {
				return "lost", fmt.Sprintf("round %d: store of %s acknowledged, not listed", r, id)
			}
		}
	}
	return "ok", ""
}

// churn: rounds in which a Store and a Remove of the SAME entry overlap while two readers list the type; once everyone
// has stopped, the listing and a load must agree about that entry (whichever of the two writes came last).
func churn(ctx context.Context, op map[string]any) (string, string) {
	rounds := 3000
	if v, ok := op["rounds"].(float64); ok {
		rounds = int(v)
	}
	t := fmt.Sprint(op["t"])
	st, err := inmem.New(ctx)
	if err != nil {
		return "error", err.Error()
	}
	if _, err := st.List(ctx, msgFor(t, "", "")); err != nil {
		return "ok", "" // not a listable type
	}
	for r := 0; r < rounds; r++ {
		id := "c"
		_ = st.Store(ctx, msgFor(t, id, "v1"))
		start := make(chan struct{})
		stop := make(chan struct{})
		var writers, readers sync.WaitGroup
		for i := 0; i < 2; i++ {
			readers.Add(1)
			go func() {
				defer readers.Done()
				<-start
				for {
					select {
					case <-stop:
						return
					default:
						_, _ = st.List(ctx, msgFor(t, "", ""))
					}
				}
			}()
		}
		writers.Add(2)
		go func() { defer writers.Done(); <-start; _ = st.Store(ctx, msgFor(t, id, "v2")) }()
		go func() { defer writers.Done(); <-start; _ = st.Remove(ctx, msgFor(t, id, "")) }()
		close(start)
		writers.Wait()
		close(stop)
		readers.Wait()
		ids, lerr := st.List(ctx, msgFor(t, "", ""))
		loaded := st.Load(ctx, msgFor(t, id, "")) == nil
		listed := false
		for _, x := range ids {
			listed = listed || x == id
		}
		if lerr == nil && listed != loaded {
			return "split", fmt.Sprintf("round %d: after an overlapping store and remove of %q everything has stopped: listed=%v, loads=%v", r, id, listed, loaded)
		}
		_ = st.Remove(ctx, msgFor(t, id, ""))
	}
	return "ok", ""
}

func Run(bh Behaviour, seed int64) ([]Line, error) {
	ctx := context.Background()
	backend := fmt.Sprint(bh.Cfg["backend"])
	st, cleanup, err := newBackend(ctx, backend)
	if err != nil {
		return nil, err
	}
	defer cleanup()
	var lines []Line
	if len(bh.Clients) == 0 {
		shared, _ := st.(*world.SwitchStorage)
		for i, op := range bh.Ops {
			ln := Line{Tr: bh.Id, I: i + 1, Cfg: bh.Cfg, Ev: "Call", Op: op, Ids: []string{}}
			ln.Pre = project(ctx, st)
			if shared != nil {
				shared.Cur = int(world.Uint64Seed(seed, fmt.Sprintf("%s/%d", bh.Id, i)) & 1) // which handle serves the call must not matter
			}
			if fmt.Sprint(op["op"]) == "Burst" {
				ln.Res, ln.Err = burst(ctx, op)
				ln.Val = "absent"
			} else if fmt.Sprint(op["op"]) == "Churn" {
				ln.Res, ln.Err = churn(ctx, op)
				ln.Val = "absent"
			} else {
				ln.Res, ln.Val, ln.Ids, ln.Err = exec(ctx, st, op)
			}
			if shared != nil {
				shared.Cur = -1
			}
			ln.Post = project(ctx, st)
			lines = append(lines, ln)
		}
		return lines, nil
	}
	// concurrent clients
	var mu sync.Mutex
	emit := func(l Line) {
		mu.Lock()
		l.Tr, l.I, l.Cfg = bh.Id, len(lines)+1, bh.Cfg
		if l.Ids == nil {
			l.Ids = []string{}
		}
		if l.Op == nil {
			l.Op = map[string]any{"op": "none", "t": "", "id": "", "v": ""}
		}
		l.Pre, l.Post = map[string]string{}, map[string]string{}
		lines = append(lines, l)
		mu.Unlock()
	}
	emit(Line{Ev: "Reset", Val: "absent"})
	var wg sync.WaitGroup
	start := make(chan struct{})
	for ci, prog := range bh.Clients {
		wg.Add(1)
		go func(c string, prog []map[string]any) {
			defer wg.Done()
			<-start
			for _, op := range prog {
				emit(Line{Ev: "Inv", C: c, Op: op, Val: "absent"})
				res, val, lst, et := exec(ctx, st, op)
				emit(Line{Ev: "Ret", C: c, Op: op, Res: res, Val: val, Ids: lst, Err: et})
			}
		}(fmt.Sprintf("c%d", ci+1), prog)
	}
	close(start)
	wg.Wait()
	return lines, nil
}
