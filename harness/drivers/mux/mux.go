// Package mux records black-box histories of the real net.MultiplexingListener:
// call / return of IngressConn, Accept, Close, parent-context cancel, and every
// Close() of an ingressed connection, stamped by one global sequence.  The
// histories are judged by MuxTrace.tla (property monitor + explanation by the
// Mux.tla model with inferred internal steps).
package mux

import (
	"context"
	"errors"
	"fmt"
	"net"
	"runtime"
	"sync"
	"time"

	nodeenet "github.com/hashicorp/nodeenrollment/net"
)

type Instance struct {
	Id     string   `json:"id"`
	K      int      `json:"K"`
	M      int      `json:"M"`
	C      int      `json:"C"`
	Cancel bool     `json:"cancel"`
	Order  []string `json:"order"` // e.g. ["I1","A1","X","C1","I2","A2"]; X = parent cancel
	// Errs: ingress ids whose item is unusual: "connErr" = IngressConn(conn, err) with BOTH a live connection and an
	// error, "nilErr" = IngressConn(nil, err) (no connection at all)
	Errs   map[string]string `json:"errs"`
	Via    []int    `json:"via"`
	EachSrc bool    `json:"eachSrc"` // one source listener (one ingress goroutine) per listener-fed connection    // ingress ids that arrive through an attached source listener (IngressListener) instead of IngressConn
	SrcErr string   `json:"srcErr"` // "custom": once shut down, a source listener fails with an error of its own (a session-style listener), not net.ErrClosed
	Settle int      `json:"settle"` // microseconds to wait after starting each op (0: none, stress)
	Seed   int64    `json:"seed"`
}

type Line struct {
	Tr  string         `json:"tr"`
	I   int            `json:"i"`
	Ev  string         `json:"ev"`
	Id  int            `json:"id"`
	Res int            `json:"res"`
	Cfg map[string]any `json:"cfg"`
	Msg string         `json:"msg"`
}

type addr struct{}

func (addr) Network() string { return "mux" }
func (addr) String() string  { return "mux" }

type recorder struct {
	mu    sync.Mutex
	lines []Line
	tr    string
	cfg   map[string]any
}

func (r *recorder) emit(ev string, id, res int, msg string) {
	r.mu.Lock()
	r.lines = append(r.lines, Line{Tr: r.tr, I: len(r.lines) + 1, Ev: ev, Id: id, Res: res, Cfg: r.cfg, Msg: msg})
	r.mu.Unlock()
}

// conn is an instrumented connection: Close is an event.
type conn struct {
	id  int
	rec *recorder
}

func (c *conn) Read([]byte) (int, error)         { return 0, errors.New("not readable") }
func (c *conn) Write(b []byte) (int, error)      { return len(b), nil }
func (c *conn) Close() error                     { c.rec.emit("ConnClosed", c.id, 0, ""); return nil }
func (c *conn) LocalAddr() net.Addr              { return addr{} }
func (c *conn) RemoteAddr() net.Addr             { return addr{} }
func (c *conn) SetDeadline(time.Time) error      { return nil }
func (c *conn) SetReadDeadline(time.Time) error  { return nil }
func (c *conn) SetWriteDeadline(time.Time) error { return nil }

// srcListener is a channel-fed source listener attached with IngressListener.  The moment the ingress
// goroutine takes a connection off it is that connection's IngressStart.
type srcListener struct {
	custom bool
	ch     chan *conn
	closed chan struct{}
	once   sync.Once
	rec    *recorder
	mu     sync.Mutex
	pulled []int
}

func (s *srcListener) Accept() (net.Conn, error) {
	select {
	case c := <-s.ch:
		s.mu.Lock()
		s.pulled = append(s.pulled, c.id)
		s.mu.Unlock()
		s.rec.emit("IngressStart", c.id, 0, "listener")
		return c, nil
	case <-s.closed:
		if s.custom {
			return nil, errors.New("session shutdown")
		}
		return nil, net.ErrClosed
	}
}
func (s *srcListener) Close() error   { s.once.Do(func() { close(s.closed) }); return nil }
func (s *srcListener) Addr() net.Addr { return addr{} }

func settle(us int) {
	if us <= 0 {
		return
	}
	deadline := time.Now().Add(time.Duration(us) * time.Microsecond)
	for time.Now().Before(deadline) {
		runtime.Gosched()
	}
}

// Run executes one instance and returns its recorded history.
func Run(in Instance, _ int64) ([]Line, error) {
	rec := &recorder{tr: in.Id, cfg: map[string]any{"K": in.K, "M": in.M, "C": in.C, "cancel": in.Cancel}}
	parent, cancel := context.WithCancel(context.Background())
	defer cancel()
	ln, err := nodeenet.NewMultiplexingListener(parent, addr{})
	if err != nil {
		return nil, err
	}
	rec.emit("Reset", 0, 0, "")
	via := map[int]bool{}
	for _, v := range in.Via {
		via[v] = true
	}
	// one source listener for all listener-fed connections, or (EachSrc) one per connection: as many ingress goroutines
	srcs := map[int]*srcListener{}
	var allSrcs []*srcListener
	newSrc := func() (*srcListener, error) {
		s := &srcListener{ch: make(chan *conn, 16), closed: make(chan struct{}), rec: rec, custom: in.SrcErr == "custom"}
		if err := ln.IngressListener(s); err != nil {
			return nil, err
		}
		allSrcs = append(allSrcs, s)
		return s, nil
	}
	var src *srcListener
	if len(via) > 0 {
		if in.EachSrc {
			for id := range via {
				s, err := newSrc()
				if err != nil {
					return nil, err
				}
				srcs[id] = s
			}
		} else {
			s, err := newSrc()
			if err != nil {
				return nil, err
			}
			src = s
		}
		defer func() {
			for _, s := range allSrcs {
				s.Close()
			}
		}()
	}
	var wg sync.WaitGroup
	pending := sync.Map{}
	start := func(name string, f func()) {
		wg.Add(1)
		pending.Store(name, true)
		go func() {
			defer wg.Done()
			defer func() {
				if p := recover(); p != nil {
					rec.emit("Panic", 0, 0, fmt.Sprintf("%s: %v", name, p))
				}
				pending.Delete(name)
			}()
			f()
		}()
	}
	for _, op := range in.Order {
		var n int
		kind := op[0]
		if len(op) > 1 {
			fmt.Sscanf(op[1:], "%d", &n)
		}
		switch kind {
		case 'I':
			c := &conn{id: n, rec: rec}
			id := n
			if via[id] {
				if s, ok := srcs[id]; ok {
					s.ch <- c
				} else {
					src.ch <- c // the connection arrives on the source listener
				}
				break
			}
			switch in.Errs[fmt.Sprint(id)] {
			case "nilErr":
				// an item without any connection: nothing to account for, but it must not upset anything else
				rec.emit("NilIngressStart", id, 0, "")
				start(op, func() {
					ln.IngressConn(nil, errors.New("ingressed error without a connection"))
					rec.emit("NilIngressEnd", id, 0, "")
				})
			case "connErr":
				rec.emit("IngressStart", id, 0, "connErr")
				start(op, func() {
					ln.IngressConn(c, errors.New("ingressed error alongside a live connection"))
					rec.emit("IngressEnd", id, 0, "")
				})
			default:
				rec.emit("IngressStart", id, 0, "")
				start(op, func() {
					ln.IngressConn(c, nil)
					rec.emit("IngressEnd", id, 0, "")
				})
			}
		case 'A':
			id := n
			rec.emit("AcceptStart", id, 0, "")
			start(op, func() {
				got, err := ln.Accept()
				res := -3
				switch {
				case got != nil:
					// a connection was handed out (possibly together with the error it was ingressed with)
					if ic, ok := got.(*conn); ok {
						res = ic.id
					}
				case err != nil && errors.Is(err, net.ErrClosed):
					res = -1
				}
				rec.emit("AcceptEnd", id, res, "")
			})
		case 'C':
			id := n
			rec.emit("CloseStart", id, 0, "")
			start(op, func() {
				_ = ln.Close()
				rec.emit("CloseEnd", id, 0, "")
			})
		case 'X':
			rec.emit("CancelStart", 0, 0, "")
			cancel()
			rec.emit("CancelEnd", 0, 0, "")
		}
		settle(in.Settle)
	}
	done := make(chan struct{})
	go func() { wg.Wait(); close(done) }()
	select {
	case <-done:
		// let a drain goroutine that already received a connection close it: wait until no
		// event has been recorded for 3 ms (at most 300 ms)
		last, stable := -1, time.Now()
		for deadline := time.Now().Add(300 * time.Millisecond); time.Now().Before(deadline); {
			rec.mu.Lock()
			n := len(rec.lines)
			rec.mu.Unlock()
			if n != last {
				last, stable = n, time.Now()
			} else if time.Since(stable) > 3*time.Millisecond {
				break
			}
			time.Sleep(200 * time.Microsecond)
		}
		if in.SrcErr == "custom" {
			// the sources shut down (with their own error) while the multiplexing listener is closed or still open; the
			// ingress goroutines get to see that before the instance ends
			for _, s := range allSrcs {
				s.Close()
			}
			time.Sleep(5 * time.Millisecond)
		}
		for _, s := range allSrcs {
			// the ingress goroutine's return is not observable from outside; it has no effect on anything else,
			// so it is placed here for every connection the goroutine took
			s.mu.Lock()
			for _, id := range s.pulled {
				rec.emit("IngressEnd", id, 0, "listener")
			}
			s.mu.Unlock()
		}
		rec.emit("End", 0, 0, "")
	case <-time.After(3 * time.Second):
		stuck := ""
		pending.Range(func(k, _ any) bool { stuck += k.(string) + " "; return true })
		rec.emit("Hung", 0, 0, stuck)
		// unblock whatever can be unblocked so goroutines do not pile up
		cancel()
		go ln.Close()
	}
	rec.mu.Lock()
	defer rec.mu.Unlock()
	out := make([]Line, len(rec.lines))
	copy(out, rec.lines)
	return out, nil
}
