package faults

import (
	"crypto/ed25519"
	"time"

	"google.golang.org/protobuf/types/known/timestamppb"

	"verifharness/world"
)

func tsAdd(t *timestamppb.Timestamp, d time.Duration) *timestamppb.Timestamp {
	return timestamppb.New(t.AsTime().Add(d))
}

func signEd(ck *world.CertKey, msg []byte) []byte { return ed25519.Sign(ck.Priv, msg) }
