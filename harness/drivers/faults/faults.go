// Package faults enumerates single storage faults over every flow (C13): the
// flow is first run fault-free to count its storage operations, then re-run
// once per (position, error kind) with exactly that operation failing.
package faults

import (
	"bytes"
	"context"
	"fmt"
	"io"
	"net"
	"time"

	"github.com/hashicorp/nodeenrollment"
	"github.com/hashicorp/nodeenrollment/protocol"
	"github.com/hashicorp/nodeenrollment/registration"
	"github.com/hashicorp/nodeenrollment/rotation"
	"github.com/hashicorp/nodeenrollment/storage/inmem"
	nodetls "github.com/hashicorp/nodeenrollment/tls"
	"github.com/hashicorp/nodeenrollment/types"
	"google.golang.org/protobuf/proto"

	"verifharness/world"
)

type Behaviour struct {
	Id  string           `json:"id"`
	Ops []map[string]any `json:"ops"` // {"op":"Fault","flow":..,"pos":n,"kind":..,"sw":bool}
}

type Obs struct {
	Nops          int    `json:"nops"`
	Handed        bool   `json:"handed"`
	Persisted     bool   `json:"persisted"`
	RecordCreated bool   `json:"recordCreated"`
	TokenUsable   bool   `json:"tokenUsable"`
	OthersChanged bool   `json:"othersChanged"`
	FailedOp      string `json:"failedOp"`
	Msg           string `json:"msg"`
}

type Line struct {
	Tr  string         `json:"tr"`
	I   int            `json:"i"`
	Op  map[string]any `json:"op"`
	Res string         `json:"res"`
	Obs Obs            `json:"obs"`
}

type env struct {
	w        *world.World
	rec      *world.RecStorage // the storage under fault injection (server or node side)
	store    nodeenrollment.Storage
	nodeRec  *world.RecStorage
	node     nodeenrollment.Storage
	token    *world.Token
	creds    *types.NodeCredentials
	req      *types.FetchNodeCredentialsRequest
	resp     *types.FetchNodeCredentialsResponse
	reqKey   string
	others   map[string][]byte
	nodeSide bool
}

type outcome struct {
	err       error
	handed    bool
	persisted func() bool
}

func rawRecords(w *world.World) map[string][]byte {
	out := map[string][]byte{}
	ids, _ := w.Inner.List(w.Ctx, (*types.NodeInformation)(nil))
	for _, id := range ids {
		ni := &types.NodeInformation{Id: id}
		if w.Inner.Load(w.Ctx, ni) == nil {
			b, _ := proto.MarshalOptions{Deterministic: true}.Marshal(ni)
			out[id] = b
		}
	}
	return out
}

func newEnv(seed int64, sw bool, flow string) (*env, error) {
	w, err := world.New(world.Config{Seed: seed, StorageWrapper: sw, NodeIdLoader: flow == "serverCertsNodeId"})
	if err != nil {
		return nil, err
	}
	// the flows run under a context that a fault of kind "ctxdone" really cancels
	tc := world.NewToggleCtx()
	cancel := tc.Cancel
	w.Ctx = tc
	w.Rec.OnCtxDone = cancel
	e := &env{w: w, rec: w.Rec, store: w.Store, reqKey: "k1"}
	nodeInner, _ := inmem.New(w.Ctx)
	e.nodeRec = world.NewRecStorage(nodeInner, false)
	e.nodeRec.OnCtxDone = cancel
	e.node = e.nodeRec.AsStorage()
	if flow != "rotateRoots0" {
		if _, err := w.InitRoots(); err != nil {
			return nil, err
		}
	}
	// a bystander node whose record must never change on a failed call
	breq, _ := w.BuildFetch(world.FetchSpec{K: "k3", E: "e2", Nonce: "n2"})
	if flow != "rotateRoots0" {
		if _, err := registration.AuthorizeNode(w.Ctx, w.Store, breq, w.StorageOpts()...); err != nil {
			return nil, err
		}
	}
	return e, nil
}

// prepare performs the flow-specific preparation (fault-free) and returns the call under test.
func (e *env) prepare(flow string) (func() outcome, error) {
	w := e.w
	ctx := w.Ctx
	so := w.StorageOpts
	keyId := w.EnsureCertKey("k1").KeyId
	recordMatches := func(want *types.NodeInformation) bool {
		got, err := types.LoadNodeInformation(ctx, w.Inner, keyId, so()...)
		return err == nil && want != nil && bytes.Equal(got.ServerEncryptionPrivateKeyBytes, want.ServerEncryptionPrivateKeyBytes) &&
			bytes.Equal(got.RegistrationNonce, want.RegistrationNonce) && len(got.CertificateBundles) == 2
	}
	respMatchesRecord := func(resp *types.FetchNodeCredentialsResponse, kid string) bool {
		got, err := types.LoadNodeInformation(ctx, w.Inner, kid, so()...)
		if err != nil || resp == nil {
			return false
		}
		out := new(types.NodeCredentials)
		if nodeenrollment.DecryptMessage(ctx, resp.EncryptedNodeCredentials, got, out) != nil {
			return false
		}
		if len(out.CertificateBundles) != len(got.CertificateBundles) {
			return false
		}
		for i := range out.CertificateBundles {
			if !bytes.Equal(out.CertificateBundles[i].CertificateDer, got.CertificateBundles[i].CertificateDer) {
				return false
			}
		}
		return true
	}
	switch flow {
	case "authorize":
		req, err := w.BuildFetch(world.FetchSpec{K: "k1", E: "e1", Nonce: "n1"})
		if err != nil {
			return nil, err
		}
		return func() outcome {
			ni, err := registration.AuthorizeNode(ctx, e.store, req, so()...)
			return outcome{err: err, handed: ni != nil, persisted: func() bool { return recordMatches(ni) }}
		}, nil
	case "fetchNodeLed":
		req, _ := w.BuildFetch(world.FetchSpec{K: "k1", E: "e1", Nonce: "n1"})
		if _, err := registration.AuthorizeNode(ctx, w.Store, req, so()...); err != nil {
			return nil, err
		}
		return func() outcome {
			resp, err := registration.FetchNodeCredentials(ctx, e.store, req, so()...)
			return outcome{err: err, handed: resp != nil && len(resp.EncryptedNodeCredentials) > 0, persisted: func() bool { return respMatchesRecord(resp, keyId) }}
		}, nil
	case "fetchToken":
		tok, err := w.CreateToken("t1", "s1")
		if err != nil {
			return nil, err
		}
		e.token = tok
		req, _ := w.BuildFetch(world.FetchSpec{K: "k1", E: "e1", Nonce: "t1"})
		return func() outcome {
			resp, err := registration.FetchNodeCredentials(ctx, e.store, req, so()...)
			return outcome{err: err, handed: resp != nil && len(resp.EncryptedNodeCredentials) > 0, persisted: func() bool { return respMatchesRecord(resp, keyId) }}
		}, nil
	case "fetchWrapped":
		w.RegWrapper = "W1"
		req, _ := w.BuildFetch(world.FetchSpec{K: "k1", E: "e1", Nonce: "n1", WrapW: "W1", WrapK: "k1", WrapN: "n1"})
		return func() outcome {
			resp, err := registration.FetchNodeCredentials(ctx, e.store, req, w.Opts()...)
			return outcome{err: err, handed: resp != nil && len(resp.EncryptedNodeCredentials) > 0, persisted: func() bool { return respMatchesRecord(resp, keyId) }}
		}, nil
	case "fetchRewrapped":
		// k3 (the bystander) is the registered intermediate that re-wraps
		req, err := w.BuildFetch(world.FetchSpec{K: "k1", E: "e1", Nonce: "n1", RewrapBy: "k3", RewrapKey: "k3", RewrapK: "k1", RewrapN: "n1"})
		if err != nil {
			return nil, err
		}
		return func() outcome {
			resp, err := registration.FetchNodeCredentials(ctx, e.store, req, so()...)
			return outcome{err: err, handed: resp != nil && len(resp.EncryptedNodeCredentials) > 0, persisted: func() bool { return respMatchesRecord(resp, keyId) }}
		}, nil
	case "createToken":
		return func() outcome {
			id, tok, err := registration.CreateServerLedActivationToken(ctx, e.store, &types.ServerLedRegistrationRequest{}, so()...)
			return outcome{err: err, handed: tok != "" || id != "", persisted: func() bool {
				te := &types.ServerLedActivationToken{Id: id}
				return w.Inner.Load(ctx, te) == nil
			}}
		}, nil
	case "rotateRoots", "rotateRoots0", "reinitRoots":
		if flow == "rotateRoots" {
			// make the stored roots due for rotation: shift them into the past so that next is valid
			rc := &types.RootCertificates{Id: nodeenrollment.RootsMessageId}
			if err := w.Inner.Load(ctx, rc); err != nil {
				return nil, err
			}
			d := rc.Next.NotBefore.AsTime().Sub(rc.Current.NotBefore.AsTime()) + rc.Next.NotBefore.AsTime().Sub(rc.Current.NotBefore.AsTime())/2
			for _, x := range []*types.RootCertificate{rc.Current, rc.Next} {
				x.NotBefore = tsAdd(x.NotBefore, -d)
				x.NotAfter = tsAdd(x.NotAfter, -d)
			}
			if err := w.Inner.Store(ctx, rc); err != nil {
				return nil, err
			}
		}
		return func() outcome {
			roots, err := rotation.RotateRootCertificates(ctx, e.store, so(nodeenrollment.WithReinitializeRoots(flow == "reinitRoots"))...)
			return outcome{err: err, handed: roots != nil, persisted: func() bool {
				got, lerr := types.LoadRootCertificates(ctx, w.Inner, so()...)
				return lerr == nil && roots != nil && bytes.Equal(got.Current.PublicKeyPkix, roots.Current.PublicKeyPkix) &&
					bytes.Equal(got.Next.PublicKeyPkix, roots.Next.PublicKeyPkix) && bytes.Equal(got.Current.PrivateKeyPkcs8, roots.Current.PrivateKeyPkcs8)
			}}
		}, nil
	case "rotateNode":
		req0, _ := w.BuildFetch(world.FetchSpec{K: "k2", E: "e1", Nonce: "n1"})
		if _, err := registration.AuthorizeNode(ctx, w.Store, req0, so(nodeenrollment.WithState(w.States["s1"]))...); err != nil {
			return nil, err
		}
		inner, _ := w.BuildFetch(world.FetchSpec{K: "k1", E: "e2", Nonce: "n2", PrevK: "k2"})
		ks, err := w.NodeSideKeySource("k2")
		if err != nil {
			return nil, err
		}
		ct, err := nodeenrollment.EncryptMessage(ctx, inner, ks)
		if err != nil {
			return nil, err
		}
		rreq := &types.RotateNodeCredentialsRequest{CertificatePublicKeyPkix: w.EnsureCertKey("k2").Pkix, EncryptedFetchNodeCredentialsRequest: ct}
		return func() outcome {
			resp, err := rotation.RotateNodeCredentials(ctx, e.store, rreq, so()...)
			// what is handed out is the credential response inside the reply (an empty one carries no credentials)
			handed := false
			if resp != nil && len(resp.EncryptedFetchNodeCredentialsResponse) > 0 {
				fr := new(types.FetchNodeCredentialsResponse)
				if nodeenrollment.DecryptMessage(ctx, resp.EncryptedFetchNodeCredentialsResponse, ks, fr) != nil || len(fr.EncryptedNodeCredentials) > 0 {
					handed = true
				}
			}
			return outcome{err: err, handed: handed, persisted: func() bool {
				_, lerr := types.LoadNodeInformation(ctx, w.Inner, keyId, so()...)
				return lerr == nil
			}}
		}, nil
	case "serverCerts", "serverCertsNodeId", "serverCertsAgain":
		req0, _ := w.BuildFetch(world.FetchSpec{K: "k1", E: "e1", Nonce: "n1"})
		if _, err := registration.AuthorizeNode(ctx, w.Store, req0, so()...); err != nil {
			return nil, err
		}
		ck := w.EnsureCertKey("k1")
		nonce := []byte("0123456789abcdef0123456789abcdef")
		greq := &types.GenerateServerCertificatesRequest{CertificatePublicKeyPkix: ck.Pkix, Nonce: nonce, NonceSignature: signEd(ck, nonce)}
		if flow == "serverCertsNodeId" {
			// the storage looks records up by node id and the node reports its node id: the lookup goes by node id
			ni, err := types.LoadNodeInformation(ctx, w.Inner, keyId, so()...)
			if err != nil {
				return nil, err
			}
			ni.NodeId = "N1"
			if err := ni.Store(ctx, w.Inner, so()...); err != nil {
				return nil, err
			}
			greq.NodeId = "N1"
		}
		if flow == "serverCertsAgain" {
			// the same server process has already served this node once, fault-free
			if _, err := nodetls.GenerateServerCertificates(ctx, e.store, greq, so()...); err != nil {
				return nil, err
			}
			// ... and the operator has since replaced both roots
			if _, err := rotation.RotateRootCertificates(ctx, w.Store, so(nodeenrollment.WithReinitializeRoots(true))...); err != nil {
				return nil, err
			}
		}
		return func() outcome {
			resp, err := nodetls.GenerateServerCertificates(ctx, e.store, greq, so()...)
			return outcome{err: err, handed: resp != nil && (len(resp.CertificateBundles) > 0 || len(resp.CertificatePrivateKeyPkcs8) > 0), persisted: func() bool {
				// what is handed out is reflected in storage when every issuing certificate is a root storage holds now
				roots, lerr := types.LoadRootCertificates(ctx, w.Inner, so()...)
				if lerr != nil || resp == nil {
					return false
				}
				for _, b := range resp.CertificateBundles {
					if !bytes.Equal(b.CaCertificateDer, roots.Current.CertificateDer) && !bytes.Equal(b.CaCertificateDer, roots.Next.CertificateDer) {
						return false
					}
				}
				return true
			}}
		}, nil
	case "nodeNew":
		e.nodeSide = true
		e.rec = e.nodeRec
		return func() outcome {
			nc, err := types.NewNodeCredentials(ctx, e.node, so()...)
			return outcome{err: err, handed: nc != nil, persisted: func() bool {
				got, lerr := types.LoadNodeCredentials(ctx, e.node, nodeenrollment.CurrentId, so()...)
				return lerr == nil && nc != nil && bytes.Equal(got.CertificatePrivateKeyPkcs8, nc.CertificatePrivateKeyPkcs8)
			}}
		}, nil
	case "nodeHandle":
		e.nodeSide = true
		nc, err := types.NewNodeCredentials(ctx, e.node, so()...)
		if err != nil {
			return nil, err
		}
		req, err := nc.CreateFetchNodeCredentialsRequest(ctx)
		if err != nil {
			return nil, err
		}
		if _, err := registration.AuthorizeNode(ctx, w.Store, req, so()...); err != nil {
			return nil, err
		}
		resp, err := registration.FetchNodeCredentials(ctx, w.Store, req, so()...)
		if err != nil {
			return nil, err
		}
		e.rec = e.nodeRec
		return func() outcome {
			got, err := nc.HandleFetchNodeCredentialsResponse(ctx, e.node, resp, so()...)
			return outcome{err: err, handed: got != nil, persisted: func() bool {
				st, lerr := types.LoadNodeCredentials(ctx, e.node, nodeenrollment.CurrentId, so()...)
				return lerr == nil && len(st.CertificateBundles) == 2
			}}
		}, nil
	case "nodeHandleTokenRetry":
		// server-led registration on the node side; when handling the response fails, the node handles the SAME response
		// again with the same credentials object (the fault is one-shot)
		e.nodeSide = true
		_, tok, err := registration.CreateServerLedActivationToken(ctx, w.Store, &types.ServerLedRegistrationRequest{}, so()...)
		if err != nil {
			return nil, err
		}
		nopts := so(nodeenrollment.WithActivationToken(tok))
		nc, err := types.NewNodeCredentials(ctx, e.node, nopts...)
		if err != nil {
			return nil, err
		}
		req, err := nc.CreateFetchNodeCredentialsRequest(ctx, nopts...)
		if err != nil {
			return nil, err
		}
		resp, err := registration.FetchNodeCredentials(ctx, w.Store, req, so()...)
		if err != nil {
			return nil, err
		}
		e.rec = e.nodeRec
		return func() outcome {
			got, err := nc.HandleFetchNodeCredentialsResponse(ctx, e.node, resp, nopts...)
			if err != nil {
				got, err = nc.HandleFetchNodeCredentialsResponse(ctx, e.node, resp, nopts...)
			}
			return outcome{err: err, handed: got != nil && err == nil, persisted: func() bool {
				st, lerr := types.LoadNodeCredentials(ctx, e.node, nodeenrollment.CurrentId, so()...)
				return lerr == nil && len(st.CertificateBundles) == 2
			}}
		}, nil
	case "nodeDialFirst":
		// the first protocol.Dial of an authorised node against a real listener: it fetches, stores and connects
		e.nodeSide = true
		nc, err := types.NewNodeCredentials(ctx, e.node, so()...)
		if err != nil {
			return nil, err
		}
		req, err := nc.CreateFetchNodeCredentialsRequest(ctx)
		if err != nil {
			return nil, err
		}
		if _, err := registration.AuthorizeNode(ctx, w.Store, req, so()...); err != nil {
			return nil, err
		}
		base, err := net.Listen("tcp", "127.0.0.1:0")
		if err != nil {
			return nil, err
		}
		il, err := protocol.NewInterceptingListener(&protocol.InterceptingListenerConfiguration{Context: ctx, Storage: w.Store, BaseListener: base, Options: so()})
		if err != nil {
			base.Close()
			return nil, err
		}
		go func() {
			for {
				c, err := il.Accept()
				if err != nil {
					if te, ok := err.(interface{ Temporary() bool }); ok && te.Temporary() {
						continue
					}
					return
				}
				go func() { io.Copy(io.Discard, c); c.Close() }()
			}
		}()
		e.rec = e.nodeRec
		return func() outcome {
			defer il.Close()
			dctx, cancel := context.WithTimeout(ctx, 8*time.Second)
			defer cancel()
			conn, err := protocol.Dial(dctx, e.node, base.Addr().String(), so()...)
			if conn != nil {
				conn.Close()
			}
			return outcome{err: err, handed: conn != nil && err == nil, persisted: func() bool {
				st, lerr := types.LoadNodeCredentials(ctx, e.node, nodeenrollment.CurrentId, so()...)
				return lerr == nil && len(st.CertificateBundles) == 2
			}}
		}, nil
	}
	return nil, fmt.Errorf("unknown flow %s", flow)
}

func str(m map[string]any, k string) string {
	if v, ok := m[k].(string); ok {
		return v
	}
	return ""
}

func num(m map[string]any, k string) int {
	if v, ok := m[k].(float64); ok {
		return int(v)
	}
	return 0
}

func Run(bh Behaviour, seed int64) ([]Line, error) {
	var lines []Line
	for i, op := range bh.Ops {
		ln := Line{Tr: bh.Id, I: i + 1, Op: op}
		flow := str(op, "flow")
		sw, _ := op["sw"].(bool)
		func() {
			defer func() {
				if p := recover(); p != nil {
					ln.Res = "panic"
					ln.Obs.Msg = fmt.Sprint(p)
				}
			}()
			// fault-free run to count the storage operations of the call
			e0, err := newEnv(world.Uint64Seed(seed, bh.Id), sw, flow)
			if err != nil {
				ln.Res, ln.Obs.Msg = "setup-error", err.Error()
				return
			}
			call0, err := e0.prepare(flow)
			if err != nil {
				ln.Res, ln.Obs.Msg = "setup-error", err.Error()
				return
			}
			m0 := e0.rec.Mark()
			_ = call0()
			ln.Obs.Nops = len(e0.rec.Since(m0))
			if num(op, "pos") > ln.Obs.Nops {
				ln.Res = "skip" // no such operation in this flow
				return
			}

			e, err := newEnv(world.Uint64Seed(seed, bh.Id), sw, flow)
			if err != nil {
				ln.Res, ln.Obs.Msg = "setup-error", err.Error()
				return
			}
			call, err := e.prepare(flow)
			if err != nil {
				ln.Res, ln.Obs.Msg = "setup-error", err.Error()
				return
			}
			keyId := e.w.EnsureCertKey("k1").KeyId
			before := rawRecords(e.w)
			_, hadRecord := before[keyId]
			pos := num(op, "pos")
			mark := e.rec.Mark()
			if pos > 0 {
				e.rec.FailAt = e.rec.SeqNow() + pos
				e.rec.Fail = world.FaultKind(str(op, "kind"))
			}
			out := call()
			e.rec.FailAt = 0
			if tc, ok := e.w.Ctx.(*world.ToggleCtx); ok {
				tc.Revive() // the harness' own inspections run under a live context again
			}
			for _, o := range e.rec.Since(mark) {
				if len(o.Err) > 9 && o.Err[:9] == "injected:" {
					ln.Obs.FailedOp = o.Op + ":" + o.Type
				}
			}
			if out.err != nil {
				ln.Res = "error"
				ln.Obs.Msg = out.err.Error()
			} else {
				ln.Res = "ok"
			}
			ln.Obs.Handed = out.handed
			ln.Obs.Persisted = out.persisted != nil && out.persisted()
			after := rawRecords(e.w)
			_, hasRecord := after[keyId]
			ln.Obs.RecordCreated = hasRecord && !hadRecord
			if e.token != nil {
				te := &types.ServerLedActivationToken{Id: e.token.Id}
				ln.Obs.TokenUsable = e.w.Inner.Load(e.w.Ctx, te) == nil
			}
			for id, b := range before {
				if id == keyId {
					continue
				}
				if nb, ok := after[id]; !ok || !bytes.Equal(nb, b) {
					ln.Obs.OthersChanged = true
				}
			}
		}()
		lines = append(lines, ln)
	}
	return lines, nil
}
