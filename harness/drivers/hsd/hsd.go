// Package hsd replays Handshake.tla behaviours against a real
// InterceptingListener on loopback (C02, C14, C16).
package hsd

import (
	"math"
	"bytes"
	"context"
	"crypto/ed25519"
	"crypto/sha1"
	"crypto/tls"
	"crypto/x509"
	"encoding/base64"
	"encoding/hex"
	"errors"
	"fmt"
	"io"
	mrand "math/rand"
	"net"
	"os"
	"runtime/debug"
	"strings"
	"sync"
	"time"

	hclog "github.com/hashicorp/go-hclog"
	wrapping "github.com/hashicorp/go-kms-wrapping/v2"
	"github.com/hashicorp/go-kms-wrapping/v2/aead"
	"github.com/hashicorp/nodeenrollment"
	"github.com/hashicorp/nodeenrollment/protocol"
	"github.com/hashicorp/nodeenrollment/registration"
	"github.com/hashicorp/nodeenrollment/rotation"
	"github.com/hashicorp/nodeenrollment/storage/inmem"
	teststore "github.com/hashicorp/nodeenrollment/storage/testing"
	nodetls "github.com/hashicorp/nodeenrollment/tls"
	"github.com/hashicorp/nodeenrollment/types"
	"google.golang.org/protobuf/proto"
	"google.golang.org/protobuf/types/known/structpb"

	"verifharness/hs"
	"verifharness/world"
)

type Cfg struct {
	Nidl     bool     `json:"nidl"`
	Base     bool     `json:"base"`
	SW       bool     `json:"sw"`
	RegW     bool     `json:"regw"` // server configured with an AEAD registration wrapper
	CertKeys []string `json:"certKeys"`
	Unix     bool     `json:"unix"`    // listen on a unix socket instead of tcp
	SO       bool     `json:"so"`      // server storage = the store-once test back end, which looks records up by node id ITSELF
	TwoH     bool     `json:"twoh"`    // file back end, two handles on one directory: the listener holds one, the operator uses the other
	LState   bool     `json:"lstate"`  // the listener's own Options carry WithState (legitimate: they feed the fetch function)
	LLog     bool     `json:"llog"`    // the listener's own Options carry a debug-level logger
	LSkew    bool     `json:"lskew"`   // the listener's own Options carry WithNotAfterClockSkew(0) (legitimate: it tunes request validation)
	Nide     bool     `json:"nide"`    // node-id lookups that find nothing answer with an empty set instead of not-found
	LifeSec  int      `json:"lifeSec"` // root lifetime in seconds (0: library default); short lifetimes enable RotateWait
}

type Behaviour struct {
	Id  string           `json:"id"`
	Cfg Cfg              `json:"cfg"`
	Ops []map[string]any `json:"ops"`
}

type St struct {
	Rec       map[string]bool   `json:"rec"`
	Cert      map[string]string `json:"cert"`
	PrevRec   map[string]bool   `json:"prevrec"`
	HasPrev   map[string]bool   `json:"hasprev"`
	PrevCert  map[string]string `json:"prevcert"`
	Phase     string            `json:"phase"` // of the server's root pair: early | overlap | late | other
}

// prev holds a node's previous credentials after a credential rotation.
type prev struct {
	store nodeenrollment.Storage
	keyId string
	gen   int // root generation under which these credentials were issued
}

type Line struct {
	Unc  bool           `json:"unc"` // real-time histories: the step ran too close to a validity boundary to be judged
	Tr   string         `json:"tr"`
	I    int            `json:"i"`
	Cfg  map[string]any `json:"cfg"`
	Op   map[string]any `json:"op"`
	Res  string         `json:"res"`
	Pre  St             `json:"pre"`
	Post St             `json:"post"`
	Obs  Obs            `json:"obs"`
	Err  string         `json:"err"`
}

type Obs struct {
	Kinds       []string `json:"kinds"`       // every Accept outcome during the step
	Offered     []string `json:"offered"`     // ALPN offered (long entries abbreviated), harness-parsed
	OfferedPref []bool   `json:"offeredPref"` // per offered entry: is it the library's certificate-preference entry
	Protos      []string `json:"protos"`      // ClientNextProtos() (same abbreviation)
	ProtosNil   bool     `json:"protosNil"`
	OfferedOK   bool     `json:"offeredOK"`
	StatePres   bool     `json:"statePresent"`
	StateEq     bool     `json:"stateEq"`
	CopyOK      bool     `json:"copyOK"`
	ClientErr   string   `json:"clientErr"`
	NotAuthErr  bool     `json:"notAuthorizedErr"`
	CredsUnch   bool     `json:"credsUnchanged"`
	SameKey     bool     `json:"sameKey"`
	StallTried    bool `json:"stallTried"`    // an honest node dialed while the peer kept its handshake open
	StallHonestOK bool `json:"stallHonestOK"` // ... and connected
	Temporary   bool     `json:"allTemporary"`
	Negotiated  string   `json:"negotiated"`
}

func s(m map[string]any, k string) string {
	if v, ok := m[k]; ok {
		if str, ok := v.(string); ok {
			return str
		}
		return fmt.Sprint(v)
	}
	return world.None
}
func b(m map[string]any, k string) bool { v, ok := m[k].(bool); return ok && v }

func abbreviate(in []string) []string {
	out := make([]string, 0, len(in))
	for _, p := range in {
		if len(p) > 40 {
			h := sha1.Sum([]byte(p))
			p = p[:24] + "#" + hex.EncodeToString(h[:6])
		}
		out = append(out, p)
	}
	return out
}

type run struct {
	gcHeld bool
	srv  *hs.Server
	cfg  Cfg
	rng  *mrand.Rand
	prev map[string]*prev
	sent map[string]sentHello // auth clients already sent, by abstract record: a `replay` client re-sends the identical ClientHello ALPN list
	gen  int            // number of root promotions so far (a reinitialisation counts two: both roots replaced)
	ngen map[string]int // generation under which each identity's current certificates were issued
}

type sentHello struct {
	protos []string
	cert   *tls.Certificate
}

// kind of a certificate set issued under generation g: fresh (current pair), old (the pair before the last
// promotion: its second chain is from the root that is current now), stale
func (r *run) certKind(g int) string {
	switch r.gen - g {
	case 0:
		return "fresh"
	case 1:
		return "old"
	}
	return "stale"
}

// phase of the server's root pair in real time, and whether a boundary is too close to judge a step
func (r *run) phase() (string, bool) {
	if r.cfg.LifeSec <= 0 {
		return "early", false // default lifetimes: the next root becomes valid in a week
	}
	roots, err := types.LoadRootCertificates(r.srv.W.Ctx, r.srv.W.Inner, r.srv.W.StorageOpts()...)
	if err != nil {
		return "other", true
	}
	now := time.Now()
	near := false
	for _, t := range []time.Time{roots.Current.NotBefore.AsTime(), roots.Current.NotAfter.AsTime(), roots.Next.NotBefore.AsTime(), roots.Next.NotAfter.AsTime()} {
		if d := now.Sub(t); d > -1500*time.Millisecond && d < 1050*time.Millisecond {
			near = true // certificate times are whole seconds: a boundary within the current second is too close
		}
	}
	in := func(x *types.RootCertificate) bool { return !now.Before(x.NotBefore.AsTime()) && !now.After(x.NotAfter.AsTime()) }
	cv, nv := in(roots.Current), in(roots.Next)
	switch {
	case cv && !nv && now.Before(roots.Next.NotBefore.AsTime()):
		return "early", near
	case cv && nv:
		return "overlap", near
	case !cv && nv && now.After(roots.Current.NotAfter.AsTime()):
		return "late", near
	}
	return "other", true
}

func (r *run) state() St {
	st := St{Rec: map[string]bool{}, Cert: map[string]string{}, PrevRec: map[string]bool{}, HasPrev: map[string]bool{}, PrevCert: map[string]string{}}
	st.Phase, _ = r.phase()
	for _, k := range r.cfg.CertKeys {
		if p, ok := r.prev[k]; ok {
			st.HasPrev[k] = true
			st.PrevCert[k] = r.certKind(p.gen)
			ni := &types.NodeInformation{Id: p.keyId}
			st.PrevRec[k] = r.srv.W.Inner.Load(r.srv.W.Ctx, ni) == nil
		} else {
			st.HasPrev[k], st.PrevCert[k], st.PrevRec[k] = false, "none", false
		}
		st.Rec[k] = r.srv.RecordPresent(k)
		st.Cert[k] = "none"
		if n, ok := r.srv.Nodes[k]; ok {
			switch {
			case len(n.Creds.CertificateBundles) != 2:
				st.Cert[k] = "pending"
			default:
				if _, seen := r.ngen[k]; !seen {
					r.ngen[k] = r.gen // first time these certificates are observed: issued by the step just executed
				}
				st.Cert[k] = r.certKind(r.ngen[k])
			}
		}
	}
	return st
}

// rawStoreNI writes an edited node record straight to the back end (a store-once back end refuses to overwrite: the old
// record is removed first there)
func rawStoreNI(w *world.World, ni *types.NodeInformation) {
	if err := w.Inner.Store(w.Ctx, ni); err != nil {
		_ = w.Inner.Remove(w.Ctx, &types.NodeInformation{Id: ni.Id})
		_ = w.Inner.Store(w.Ctx, ni)
	}
}

var waitOps = map[string]bool{"WaitOverlap": true, "RotateWait": true, "ExpireWait": true, "Reinit": true}

func Run(bh Behaviour, seed int64) ([]Line, error) {
	if len(bh.Cfg.CertKeys) == 0 {
		bh.Cfg.CertKeys = []string{"k1", "k2", "k3"}
	}
	sc := hs.ServerConfig{Seed: world.Uint64Seed(seed, bh.Id), StorageWrapper: bh.Cfg.SW, NodeIdLoader: bh.Cfg.Nidl, NoBaseTLS: !bh.Cfg.Base,
		Lifetime: time.Duration(bh.Cfg.LifeSec) * time.Second}
	if bh.Cfg.Unix {
		dir, derr := os.MkdirTemp("", "nevsock")
		if derr != nil {
			return nil, derr
		}
		defer os.RemoveAll(dir)
		sc.Unix = dir + "/l.sock"
	}
	if bh.Cfg.LifeSec > 0 {
		sc.RootOpts = []nodeenrollment.Option{nodeenrollment.WithNotBeforeClockSkew(0), nodeenrollment.WithNotAfterClockSkew(0)}
	}
	if bh.Cfg.RegW {
		// the application's own registration wrapper: go-kms-wrapping's AEAD wrapper as shipped
		aw := aead.NewWrapper()
		key := make([]byte, 32)
		mrand.New(mrand.NewSource(seed)).Read(key)
		if _, err := aw.SetConfig(context.Background(), wrapping.WithKeyId("app-reg"), aead.WithKey(key)); err != nil {
			return nil, err
		}
		sc.ExtraOpts = append(sc.ExtraOpts, nodeenrollment.WithRegistrationWrapper(aw))
	}
	if bh.Cfg.SO {
		so, err := teststore.New(context.Background())
		if err != nil {
			return nil, err
		}
		sc.Inner = so
	}
	if bh.Cfg.TwoH {
		shared, cleanup, err := world.NewSwitchStorage(2)
		if err != nil {
			return nil, err
		}
		defer cleanup()
		sc.Inner = shared
		sc.ListenerStore = shared.Handles[0] // the long-lived listener holds ONE handle for its whole life
		shared.Cur = 1                       // everything the operator / harness does goes through the other one
	}
	if bh.Cfg.LState {
		ls, _ := structpb.NewStruct(map[string]any{"owner": "listener", "configured": true})
		sc.ExtraOpts = append(sc.ExtraOpts, nodeenrollment.WithState(ls))
	}
	if bh.Cfg.LLog {
		sc.ExtraOpts = append(sc.ExtraOpts, nodeenrollment.WithLogger(hclog.New(&hclog.LoggerOptions{Level: hclog.Debug, Output: io.Discard})))
	}
	if bh.Cfg.LSkew {
		sc.ExtraOpts = append(sc.ExtraOpts, nodeenrollment.WithNotAfterClockSkew(0))
	}
	srv, err := hs.NewServer(sc)
	if err != nil {
		return nil, err
	}
	defer srv.Close()
	srv.W.Rec.NidEmptyOK = bh.Cfg.Nide
	srv.W.Rec.NativeNid = bh.Cfg.SO
	r := &run{srv: srv, cfg: bh.Cfg, prev: map[string]*prev{}, ngen: map[string]int{}, sent: map[string]sentHello{}, rng: mrand.New(mrand.NewSource(world.Uint64Seed(seed, "hsd/"+bh.Id)))}
	defer func() {
		if r.gcHeld {
			r.gcHeld = false
			gcHoldOff()
		}
	}()
	cfgMap := map[string]any{"nidl": bh.Cfg.Nidl, "base": bh.Cfg.Base}
	var lines []Line
	for i, op := range bh.Ops {
		ln := Line{Tr: bh.Id, I: i + 1, Cfg: cfgMap, Op: op, Obs: Obs{Kinds: []string{}, Offered: []string{}, OfferedPref: []bool{}, Protos: []string{}, Temporary: true, CredsUnch: true, SameKey: true}}
		ln.Pre = r.state()
		_, near0 := r.phase()
		r.step(op, &ln)
		ln.Post = r.state()
		// real-time root lifetimes: a step that STARTED within 1.5 s before (1 s after) a validity boundary is not judged.
		// A step that started well clear of every boundary is judged by the phase it started in even when it ran so long
		// that a boundary passed meanwhile: handshakes take milliseconds, a dial that needs seconds has already failed.
		if bh.Cfg.LifeSec > 0 && !waitOps[s(op, "op")] && (near0 || ln.Pre.Phase == "other") {
			ln.Unc = true
		}
		lines = append(lines, ln)
	}
	return lines, nil
}

func (r *run) record(ln *Line, res hs.AcceptResult) {
	ln.Obs.Kinds = append(ln.Obs.Kinds, res.Kind)
	if res.Kind != "temperr" {
		ln.Obs.Temporary = false
	}
	if res.Kind == "auth" || res.Kind == "base" {
		ln.Obs.Offered = abbreviate(res.Offered)
		ln.Obs.OfferedPref = make([]bool, len(res.Offered))
		for i, p := range res.Offered {
			ln.Obs.OfferedPref[i] = strings.HasPrefix(p, nodeenrollment.CertificatePreferenceV1Prefix)
		}
		ln.Obs.OfferedOK = res.OfferedOK
		ln.Obs.Protos = abbreviate(res.Protos)
		ln.Obs.ProtosNil = res.ProtosNil
		ln.Obs.CopyOK = res.CopyOK
		ln.Obs.StatePres = res.State != nil
		ln.Obs.Negotiated = res.Negotiated
	}
	if res.Err != "" && ln.Err == "" {
		ln.Err = res.Err
	}
}

// summary of several accept outcomes: the strongest one
func summarize(kinds []string) string {
	rank := map[string]int{"panic": 6, "fatal": 5, "timeout": 4, "fetchconn": 4, "othertype": 4, "auth": 3, "base": 2, "temperr": 1}
	best, bestR := "none", 0
	for _, k := range kinds {
		if rank[k] > bestR {
			best, bestR = k, rank[k]
		}
	}
	return best
}

func (r *run) stateFor(class string) *structpb.Struct {
	switch class {
	case "empty":
		st, _ := structpb.NewStruct(map[string]any{})
		return st
	case "nested":
		st, _ := structpb.NewStruct(map[string]any{"a": map[string]any{"b": []any{1.0, "x", map[string]any{"c": true}}}, "n": nil})
		return st
	case "odd":
		// values a Go map round trip does not preserve: non-finite numbers, a value with no kind set (also nested)
		return &structpb.Struct{Fields: map[string]*structpb.Value{
			"limit":   structpb.NewNumberValue(math.Inf(1)),
			"floor":   structpb.NewNumberValue(math.Inf(-1)),
			"unset":   {},
			"nested":  structpb.NewStructValue(&structpb.Struct{Fields: map[string]*structpb.Value{"inner": {}, "x": structpb.NewNumberValue(math.Inf(1))}}),
			"regular": structpb.NewStringValue("v"),
		}}
	case "large":
		m := map[string]any{}
		for i := 0; i < 40; i++ {
			m[fmt.Sprintf("key-%02d", i)] = strings.Repeat("v", 20)
		}
		st, _ := structpb.NewStruct(m)
		return st
	}
	return nil
}

func extrasFor(class string) []string {
	switch class {
	case "one":
		return []string{"app-proto"}
	case "many":
		return []string{"h2", "app-proto", "x-third", "x-fourth"}
	case "dups":
		return []string{"app-proto", "app-proto", "h2", "app-proto"}
	case "prefixlike":
		return []string{"v1-nodee-", "v1-nodee-fetch", "__AUTH__", "v1-nodee-certificate-preferenc"}
	case "containsPref":
		// application names that merely CONTAIN one of the library's prefixes somewhere other than at their start
		return []string{"acme/" + nodeenrollment.CertificatePreferenceV1Prefix + "passthrough", "x-" + nodeenrollment.AuthenticateNodeNextProtoV1Prefix + "y", "app-proto"}
	}
	return nil
}

func (r *run) step(op map[string]any, ln *Line) {
	srv := r.srv
	switch s(op, "op") {
	case "Enroll":
		k := s(op, "k")
		if n, ok := srv.Nodes[k]; ok && len(n.Creds.CertificateBundles) > 0 {
			ln.Res = "skip"
			return
		}
		if _, err := srv.Enroll(k, nil); err != nil {
			ln.Res = "error"
			ln.Err = err.Error()
			return
		}
		if r.cfg.Nidl {
			ni := &types.NodeInformation{Id: srv.W.CertKeys[k].KeyId}
			if err := srv.W.Inner.Load(srv.W.Ctx, ni); err == nil {
				ni.NodeId = "N-" + k
				rawStoreNI(srv.W, ni)
			}
		}
		ln.Res = "ok"
	case "Remove":
		if !srv.RecordPresent(s(op, "k")) {
			ln.Res = "skip"
			return
		}
		_ = srv.RemoveRecord(s(op, "k"))
		ln.Res = "ok"
	case "Reinit":
		if err := srv.ReinitRoots(); err != nil {
			ln.Err = err.Error()
		}
		r.gen += 2 // both roots replaced
		ln.Res = "ok"
	case "RotateNode":
		r.rotateNode(op, ln)
	case "RemovePrev":
		p, ok := r.prev[s(op, "k")]
		if !ok {
			ln.Res = "skip"
			return
		}
		ni := &types.NodeInformation{Id: p.keyId}
		if srv.W.Inner.Load(srv.W.Ctx, ni) != nil {
			ln.Res = "skip"
			return
		}
		_ = srv.W.Store.Remove(srv.W.Ctx, ni)
		ln.Res = "ok"
	case "DialPrev":
		p, ok := r.prev[s(op, "k")]
		if !ok {
			ln.Res = "skip"
			return
		}
		name := "prev-" + s(op, "k")
		creds, err := types.LoadNodeCredentials(srv.W.Ctx, p.store, nodeenrollment.CurrentId)
		if err != nil {
			ln.Res, ln.Err = "harness-error", err.Error()
			return
		}
		srv.Nodes[name] = &hs.Node{Name: name, Storage: p.store, Creds: creds, Fresh: r.certKind(p.gen) == "fresh"}
		results, conn, derr := srv.HonestDial(name)
		delete(srv.Nodes, name)
		for _, x := range results {
			r.record(ln, x)
			if x.Conn != nil {
				x.Conn.Close()
			}
		}
		if conn != nil {
			conn.Close()
		}
		if derr != nil {
			ln.Obs.ClientErr = derr.Error()
		}
		ln.Res = summarize(ln.Obs.Kinds)
		if ln.Res == "none" && derr != nil {
			ln.Res = "temperr" // the node holds no chain that is valid now: it fails before reaching the server
		}
	case "NewNode":
		k := s(op, "k")
		if _, ok := srv.Nodes[k]; ok {
			ln.Res = "skip"
			return
		}
		if _, err := srv.NewNode(k); err != nil {
			ln.Res, ln.Err = "error", err.Error()
			return
		}
		ln.Res = "ok"
	case "AuthorizePending":
		k := s(op, "k")
		n, ok := srv.Nodes[k]
		if !ok || len(n.Creds.CertificateBundles) > 0 || srv.RecordPresent(k) {
			ln.Res = "skip"
			return
		}
		// the operator authorises the request the node would present
		req, err := n.Creds.CreateFetchNodeCredentialsRequest(srv.W.Ctx)
		if err == nil {
			_, err = registration.AuthorizeNode(srv.W.Ctx, srv.W.Store, req, srv.W.StorageOpts()...)
		}
		if err != nil {
			ln.Res, ln.Err = "error", err.Error()
			return
		}
		n.Fresh = true
		ln.Res = "ok"
	case "Rogue":
		k := s(op, "k")
		n, ok := srv.Nodes[k]
		if !ok || len(n.Creds.CertificateBundles) != 2 {
			ln.Res = "skip"
			return
		}
		var opts []nodeenrollment.Option
		if ex := extrasFor(s(op, "ex")); ex != nil {
			opts = append(opts, nodeenrollment.WithExtraAlpnProtos(ex))
		}
		conn, et := srv.RogueDial(k, s(op, "kind"), opts...)
		ln.Obs.ClientErr = et
		if conn {
			ln.Res = "conn"
		} else {
			ln.Res = "error"
		}
	case "RotateWait":
		r.rotateWait(ln)
		if ln.Res == "ok" {
			r.gen++
		}
	case "WaitOverlap":
		r.waitOverlap(ln)
	case "ExpireWait":
		r.expireWait(ln)
	case "ConnectFlip":
		r.connectFlip(op, ln)
	case "Connect":
		r.connect(op, ln)
	case "Dial":
		if r.gcHeld {
			defer func() { r.gcHeld = false; gcHoldOff() }()
		}
		r.dial(op, ln)
	case "Malformed":
		r.malformed(op, ln)
	default:
		panic("unknown op " + s(op, "op"))
	}
}

func (r *run) connect(op map[string]any, ln *Line) {
	srv := r.srv
	switch s(op, "kind") {
	case "auth", "mixedFA", "mixedAF":
		c := hs.Client{Kind: s(op, "kind"), K: s(op, "k"), Ck: s(op, "ck"), Chain: s(op, "chain"), Priv: b(op, "priv"), Nsig: s(op, "nsig"),
			St: s(op, "stt"), Skip: b(op, "skip"), Pref: s(op, "pref"), Cn: b(op, "cn")}
		if xp := s(op, "xp"); xp != world.None {
			// application names are opaque bytes: padded with blanks, binary, invalid UTF-8, longer than 32 bytes
			c.Extras, c.XPos = []string{"app-proto", "zz", " padded ", "bin\x01\xff", "mgmt", "mgmt ", strings.Repeat("long-name-", 5)}, xp
		}
		switch s(op, "nid") {
		case "own":
			c.Nid = "N-" + c.K
		case "other":
			c.Nid = "N-" + c.Ck
		case "bogus":
			c.Nid = "N-nobody"
		}
		// a `replay` client presents, byte for byte, the request (same nonce, same signatures) an identical earlier client sent
		key := fmt.Sprint(c.Kind, c.K, c.Ck, c.Chain, c.Priv, c.Nsig, c.St, c.Skip, c.Nid, c.Pref, c.Cn, c.XPos)
		var res hs.AcceptResult
		var cerr string
		if prevSent, ok := r.sent[key]; ok && b(op, "replay") {
			res, cerr = srv.Exchange(prevSent.protos, prevSent.cert)
		} else if c.Kind == "auth" {
			protos, _, perr := srv.BuildAuthProtos(c)
			cert, cerr2 := srv.ClientCert(c)
			if perr != nil || cerr2 != nil {
				ln.Res = "harness-error"
				return
			}
			r.sent[key] = sentHello{protos, cert}
			res, cerr = srv.Exchange(protos, cert)
		} else {
			res, cerr = srv.Connect(c)
		}
		r.record(ln, res)
		ln.Obs.ClientErr = cerr
		ln.Res = res.Kind
	case "base":
		protos := []string{"app-proto", "__AUTH__", "__UNAUTH__"}
		if b(op, "walpn") {
			// a plain application client whose ALPN list also holds names with blanks, control bytes and invalid UTF-8
			protos = []string{"app-proto", " padded ", "ctl\x01\x7f", "bad\xff\xfe", nodeenrollment.CertificatePreferenceV1Prefix + "x\x00y"}
		}
		res, cerr := srv.Exchange(protos, nil)
		r.record(ln, res)
		ln.Obs.ClientErr = cerr
		ln.Res = res.Kind
	case "fetch":
		// an unauthorised node's first dial: the library's own fetch attempt
		name := fmt.Sprintf("fx%d", ln.I)
		if _, err := srv.NewNode(name); err != nil {
			panic(err)
		}
		results, conn, err := srv.HonestDial(name)
		for _, x := range results {
			r.record(ln, x)
		}
		if conn != nil {
			conn.Close()
		}
		ln.Obs.NotAuthErr = errors.Is(err, nodeenrollment.ErrNotAuthorized)
		if err != nil {
			ln.Obs.ClientErr = err.Error()
		}
		ln.Res = summarize(ln.Obs.Kinds)
	}
}

func (r *run) dial(op map[string]any, ln *Line) {
	srv := r.srv
	k := s(op, "k")
	n, ok := srv.Nodes[k]
	if !ok {
		ln.Res = "skip"
		return
	}
	pending := len(n.Creds.CertificateBundles) != 2
	keyBefore := append([]byte(nil), n.Creds.CertificatePublicKeyPkix...)
	rawBefore := rawCreds(srv, n)
	defer func() {
		if cur, err := types.LoadNodeCredentials(srv.W.Ctx, n.Storage, nodeenrollment.CurrentId); err == nil {
			ln.Obs.SameKey = bytes.Equal(cur.CertificatePublicKeyPkix, keyBefore)
		}
		if pending && ln.Res != "auth" {
			ln.Obs.CredsUnch = bytes.Equal(rawBefore, rawCreds(srv, n))
		}
	}()
	var opts []nodeenrollment.Option
	if ex := extrasFor(s(op, "ex")); ex != nil {
		opts = append(opts, nodeenrollment.WithExtraAlpnProtos(ex))
	}
	want := r.stateFor(s(op, "stt"))
	if want != nil {
		opts = append(opts, nodeenrollment.WithState(want))
	}
	if s(op, "stt") == "overriddenNil" {
		// options are last-wins: a default state overridden with "none" for this dial means no state is supplied
		dflt, _ := structpb.NewStruct(map[string]any{"default": true})
		opts = append(opts, nodeenrollment.WithState(dflt), nodeenrollment.WithState(nil))
	}
	results, conn, err := srv.HonestDial(k, opts...)
	var auth *hs.AcceptResult
	for i := range results {
		r.record(ln, results[i])
		if results[i].Kind == "auth" {
			auth = &results[i]
		}
	}
	if conn != nil {
		conn.Close()
	}
	if err != nil {
		ln.Obs.ClientErr = err.Error()
		ln.Obs.NotAuthErr = errors.Is(err, nodeenrollment.ErrNotAuthorized)
	}
	ln.Res = summarize(ln.Obs.Kinds)
	if ln.Res == "none" && err != nil {
		ln.Res = "temperr" // the node holds no chain that is valid now: it fails before reaching the server
	}
	if pending && auth == nil && ln.Res == "temperr" && ln.Obs.NotAuthErr {
		ln.Res = "notauth"
	}
	if auth != nil {
		ln.Obs.StatePres = auth.State != nil
		ln.Obs.StateEq = (want == nil && auth.State == nil) || (want != nil && auth.State != nil && proto.Equal(want, auth.State)) ||
			(want != nil && len(want.Fields) == 0 && (auth.State == nil || len(auth.State.Fields) == 0))
		if auth.Conn != nil {
			auth.Conn.Close()
		}
	}
	if (err == nil) != (auth != nil) && ln.Res != "panic" {
		// client and server disagree about the outcome: keep both visible
		ln.Obs.ClientErr = "client/server disagree: " + ln.Obs.ClientErr
	}
}

// rotateNode performs a node credential rotation end to end: the node creates new credentials, seals the
// fetch request with its current shared key, the server runs rotation.RotateNodeCredentials, the node opens
// the reply with the current key and the credentials inside with the new one.
func (r *run) rotateNode(op map[string]any, ln *Line) {
	srv := r.srv
	w := srv.W
	k := s(op, "k")
	n, ok := srv.Nodes[k]
	if !ok || len(n.Creds.CertificateBundles) != 2 {
		ln.Res = "skip"
		return
	}
	old := n.Creds
	newStore, _ := inmem.New(w.Ctx)
	nc, err := types.NewNodeCredentials(w.Ctx, newStore)
	if err != nil {
		ln.Res, ln.Err = "harness-error", err.Error()
		return
	}
	nc.PreviousCertificatePublicKeyPkix = old.CertificatePublicKeyPkix
	req, err := nc.CreateFetchNodeCredentialsRequest(w.Ctx)
	if err != nil {
		ln.Res, ln.Err = "harness-error", err.Error()
		return
	}
	ct, err := nodeenrollment.EncryptMessage(w.Ctx, req, old)
	if err != nil {
		ln.Res, ln.Err = "harness-error", err.Error()
		return
	}
	rreq := &types.RotateNodeCredentialsRequest{CertificatePublicKeyPkix: old.CertificatePublicKeyPkix, EncryptedFetchNodeCredentialsRequest: ct}
	if r.cfg.Nidl {
		rreq.NodeId = "N-" + k
	}
	resp, err := rotation.RotateNodeCredentials(w.Ctx, w.Store, rreq, w.StorageOpts()...)
	if err != nil {
		ln.Res, ln.Err = "error", err.Error()
		return
	}
	fr := new(types.FetchNodeCredentialsResponse)
	if err := nodeenrollment.DecryptMessage(w.Ctx, resp.EncryptedFetchNodeCredentialsResponse, old, fr); err != nil {
		ln.Res, ln.Err = "error", "reply does not open with the current key: "+err.Error()
		return
	}
	if err := nc.SetPreviousEncryptionKey(old); err != nil {
		ln.Res, ln.Err = "harness-error", err.Error()
		return
	}
	if _, err := nc.HandleFetchNodeCredentialsResponse(w.Ctx, newStore, fr); err != nil {
		ln.Res, ln.Err = "error", "node refuses the rotated credentials: "+err.Error()
		return
	}
	oldKid, _ := nodeenrollment.KeyIdFromPkix(old.CertificatePublicKeyPkix)
	r.prev[k] = &prev{store: n.Storage, keyId: oldKid, gen: r.ngen[k]}
	delete(r.ngen, k) // the new certificates are issued under the current pair
	// the identity now answers to the new key
	priv, _ := x509.ParsePKCS8PrivateKey(nc.CertificatePrivateKeyPkcs8)
	ep := priv.(ed25519.PrivateKey)
	_, kid, _ := nodeenrollment.SubjectKeyInfoAndKeyIdFromPubKey(ep.Public())
	w.CertKeys[k] = &world.CertKey{Name: k, Pub: ep.Public().(ed25519.PublicKey), Priv: ep, Pkix: nc.CertificatePublicKeyPkix, Pkcs8: nc.CertificatePrivateKeyPkcs8, KeyId: kid}
	if r.cfg.Nidl {
		ni := &types.NodeInformation{Id: kid}
		if w.Inner.Load(w.Ctx, ni) == nil {
			ni.NodeId = "N-" + k
			rawStoreNI(w, ni)
		}
	}
	srv.Nodes[k] = &hs.Node{Name: k, Storage: newStore, Creds: nc, Fresh: true}
	ln.Res = "ok"
}

// connectFlip sends the honest authentication request of node k with one bit of the marshalled request
// flipped, and RE-PROJECTS what was actually sent onto the abstract client record, so that the trace spec
// judges the mutated request itself (undecodable mutations become a Malformed step).
func (r *run) connectFlip(op map[string]any, ln *Line) {
	srv := r.srv
	w := srv.W
	k := s(op, "k")
	n, ok := srv.Nodes[k]
	if !ok || len(n.Creds.CertificateBundles) != 2 {
		ln.Res = "skip"
		return
	}
	base := hs.Client{Kind: "auth", K: k, Ck: k, Chain: "b0", Priv: true, Nsig: k, St: "ok", Pref: "cur"}
	if r.cfg.Nidl && int(numOf(op, "bit"))%2 == 0 {
		base.Nid = "N-" + k
	}
	protos0, req0, err := srv.BuildAuthProtos(base)
	_ = protos0
	if err != nil {
		ln.Res, ln.Err = "harness-error", err.Error()
		return
	}
	raw, _ := proto.Marshal(req0)
	bit := int(numOf(op, "bit")) % (len(raw) * 8)
	mut := append([]byte(nil), raw...)
	mut[bit/8] ^= 1 << (bit % 8)
	protos, _ := nodetls.BreakIntoNextProtos(nodeenrollment.AuthenticateNodeNextProtoV1Prefix, base64.RawStdEncoding.EncodeToString(mut))
	roots, rerr := types.LoadRootCertificates(w.Ctx, w.Inner, w.StorageOpts()...)
	if rerr == nil {
		id, _ := nodeenrollment.KeyIdFromPkix(roots.Current.PublicKeyPkix)
		protos = append(protos, nodeenrollment.CertificatePreferenceV1Prefix+id)
	}
	cert, _ := srv.ClientCert(base)
	// re-projection
	got := new(types.GenerateServerCertificatesRequest)
	newOp := map[string]any{"bit": bit}
	if proto.Unmarshal(mut, got) != nil {
		newOp["op"], newOp["cls"], newOp["pfx"] = "Malformed", "flipUndecodable", "auth"
	} else {
		name := w.CertName(got.CertificatePublicKeyPkix)
		if _, ok := w.CertKeys[name]; !ok || !contains(r.cfg.CertKeys, name) {
			name = "kx"
		}
		if len(got.CertificatePublicKeyPkix) == 0 {
			name = world.None // the request names no key at all
		}
		signer := "kx"
		if len(got.NonceSignature) == 0 {
			signer = world.None
		}
		for _, cn := range r.cfg.CertKeys {
			if ck, ok := w.CertKeys[cn]; ok && len(got.Nonce) > 0 && ed25519.Verify(ck.Pub, got.Nonce, got.NonceSignature) {
				signer = cn
			}
		}
		stt := world.None
		if len(got.ClientState) > 0 {
			stt = "forged"
			if len(got.ClientStateSignature) == 0 {
				stt = "unsigned"
			} else if ck, ok := w.CertKeys[signer]; ok && ed25519.Verify(ck.Pub, got.ClientState, got.ClientStateSignature) {
				stt = "ok"
			}
			// state bytes that no longer parse make the server refuse: treat as forged
			if proto.Unmarshal(got.ClientState, new(structpb.Struct)) != nil {
				stt = "forged"
			}
		}
		nid := world.None
		switch got.NodeId {
		case "":
		case "N-" + name:
			nid = "own"
		case "N-" + k:
			nid = "other"
		default:
			nid = "bogus"
		}
		if len(got.Nonce) == 0 {
			signer = world.None // an empty nonce is refused outright
		}
		newOp["op"], newOp["kind"], newOp["k"], newOp["ck"], newOp["chain"], newOp["priv"] = "Connect", "auth", name, k, "b0", true
		newOp["nsig"], newOp["stt"], newOp["skip"], newOp["nid"], newOp["pref"], newOp["cn"] = signer, stt, got.SkipVerification, nid, "cur", got.CommonName != ""
	}
	ln.Op = newOp
	res, cerr := srv.Exchange(protos, cert)
	r.record(ln, res)
	ln.Obs.ClientErr = cerr
	ln.Res = res.Kind
	if newOp["op"] == "Malformed" {
		ln.Res = summarize(ln.Obs.Kinds)
	}
}

func contains(l []string, x string) bool {
	for _, y := range l {
		if y == x {
			return true
		}
	}
	return false
}

func numOf(m map[string]any, k string) float64 {
	if v, ok := m[k].(float64); ok {
		return v
	}
	return 0
}

func rawCreds(srv *hs.Server, n *hs.Node) []byte {
	nc := &types.NodeCredentials{Id: string(nodeenrollment.CurrentId)}
	if err := n.Storage.Load(srv.W.Ctx, nc); err != nil {
		return nil
	}
	b, _ := proto.MarshalOptions{Deterministic: true}.Marshal(nc)
	return b
}

// rotateWait waits (real time) until the second chain of every enrolled node is valid, then lets the
// server rotate its roots: the old next becomes current, the old current is no longer recognised.
func (r *run) rotateWait(ln *Line) {
	srv := r.srv
	if r.cfg.LifeSec <= 0 {
		ln.Res = "skip"
		return
	}
	before, _ := types.LoadRootCertificates(srv.W.Ctx, srv.W.Inner, srv.W.StorageOpts()...)
	if before != nil {
		if d := time.Until(before.Next.NotBefore.AsTime().Add(1200 * time.Millisecond)); d > 0 {
			time.Sleep(d)
		}
	}
	after, err := rotation.RotateRootCertificates(srv.W.Ctx, srv.W.Store, srv.W.StorageOpts(
		nodeenrollment.WithCertificateLifetime(time.Duration(r.cfg.LifeSec)*time.Second),
		nodeenrollment.WithNotBeforeClockSkew(0), nodeenrollment.WithNotAfterClockSkew(0))...)
	if err != nil || before == nil || !bytes.Equal(after.Current.PublicKeyPkix, before.Next.PublicKeyPkix) {
		ln.Res = "harness-error"
		ln.Err = fmt.Sprint("rotation did not promote: ", err)
		return
	}
	ln.Res = "ok"
}

// waitOverlap waits (real time) until the next root has become valid too.
func (r *run) waitOverlap(ln *Line) {
	srv := r.srv
	if ph, _ := r.phase(); r.cfg.LifeSec <= 0 || ph != "early" {
		ln.Res = "skip"
		return
	}
	roots, err := types.LoadRootCertificates(srv.W.Ctx, srv.W.Inner, srv.W.StorageOpts()...)
	if err != nil {
		ln.Res, ln.Err = "harness-error", err.Error()
		return
	}
	if d := time.Until(roots.Next.NotBefore.AsTime().Add(1200 * time.Millisecond)); d > 0 {
		time.Sleep(d)
	}
	if ph, _ := r.phase(); ph != "overlap" {
		ln.Res, ln.Err = "harness-error", "no overlap period reached: "+ph
		return
	}
	ln.Res = "ok"
}

// expireWait waits (real time) until the server's CURRENT root has expired while its next root is valid, and
// does not rotate: the operator is late.  The server serves from the next root in that period.
func (r *run) expireWait(ln *Line) {
	srv := r.srv
	if r.cfg.LifeSec <= 0 {
		ln.Res = "skip"
		return
	}
	roots, err := types.LoadRootCertificates(srv.W.Ctx, srv.W.Inner, srv.W.StorageOpts()...)
	if err != nil {
		ln.Res = "harness-error"
		ln.Err = err.Error()
		return
	}
	if d := time.Until(roots.Current.NotAfter.AsTime().Add(1200 * time.Millisecond)); d > 0 {
		time.Sleep(d)
	}
	now := time.Now()
	if !roots.Next.NotBefore.AsTime().Before(now) || roots.Next.NotAfter.AsTime().Sub(now) < 1500*time.Millisecond {
		ln.Res = "harness-error"
		ln.Err = "no period in which only the next root is valid"
		return
	}
	ln.Res = "ok"
}

// ---- malformed inputs (C14) ----

func (r *run) prefix(p string) string {
	switch p {
	case "fetch":
		return nodeenrollment.FetchNodeCredsNextProtoV1Prefix
	case "auth":
		return nodeenrollment.AuthenticateNodeNextProtoV1Prefix
	}
	return nodeenrollment.CertificatePreferenceV1Prefix
}

func (r *run) randB64(n int) string {
	bb := make([]byte, n)
	r.rng.Read(bb)
	return base64.RawStdEncoding.EncodeToString(bb)
}

func (r *run) validAuthB64() string {
	w := r.srv.W
	nonce := make([]byte, 32)
	r.rng.Read(nonce)
	ck := w.EnsureCertKey("kx")
	req := &types.GenerateServerCertificatesRequest{CertificatePublicKeyPkix: ck.Pkix, Nonce: nonce, NonceSignature: ed25519.Sign(ck.Priv, nonce)}
	bb, _ := proto.Marshal(req)
	return base64.RawStdEncoding.EncodeToString(bb)
}

func (r *run) validFetchB64(wrappedShort bool) string {
	w := r.srv.W
	info, err := w.BuildInfo(world.FetchSpec{K: "kx", E: "e1", Nonce: "n1"})
	if err != nil {
		panic(err)
	}
	if wrappedShort {
		blob := &wrapping.BlobInfo{Ciphertext: []byte{1, 2, 3}}
		info.WrappedRegistrationInfo, _ = proto.Marshal(blob)
	}
	req, err := w.SignInfo(info, "kx")
	if err != nil {
		panic(err)
	}
	bb, _ := proto.Marshal(req)
	return base64.RawStdEncoding.EncodeToString(bb)
}

func (r *run) malformedProtos(cls, pfx string) []string {
	p := r.prefix(pfx)
	valid := r.validAuthB64()
	if pfx == "fetch" {
		valid = r.validFetchB64(false)
	}
	switch cls {
	case "empty":
		return []string{p}
	case "short1":
		return []string{p + "0"}
	case "short2":
		return []string{p + "00"}
	case "nob64":
		return []string{p + "00-" + "!!!not*base64!!!"}
	case "b64rand":
		return []string{p + "00-" + r.randB64(1+r.rng.Intn(150))}
	case "b64trunc":
		cut := 1 + r.rng.Intn(len(valid)-1)
		return []string{p + "00-" + valid[:cut]}
	case "oversize":
		var out []string
		for i := 0; i < 130; i++ {
			out = append(out, fmt.Sprintf("%s%02d-%s", p, i, r.randB64(100)))
		}
		return out
	case "mixed":
		a, _ := nodetls.BreakIntoNextProtos(nodeenrollment.AuthenticateNodeNextProtoV1Prefix, r.validAuthB64())
		f, _ := nodetls.BreakIntoNextProtos(nodeenrollment.FetchNodeCredsNextProtoV1Prefix, r.validFetchB64(false))
		if r.rng.Intn(2) == 0 {
			return append(a, f...)
		}
		return append(f, a...)
	case "dup":
		c, _ := nodetls.BreakIntoNextProtos(p, valid)
		return append(append([]string{}, c...), c...)
	case "badindex":
		return []string{p + "07-" + valid, p + "xx-" + valid[:10], p + "-1-" + valid[:5]}
	case "hugeEntry":
		return []string{p + "00-" + strings.Repeat("A", 255-len(p)-3)}
	case "prefOnly":
		return []string{nodeenrollment.CertificatePreferenceV1Prefix + r.randB64(8)}
	case "wrappedShort":
		c, _ := nodetls.BreakIntoNextProtos(nodeenrollment.FetchNodeCredsNextProtoV1Prefix, r.validFetchB64(true))
		return c
	case "keyTrunc", "keyHeaderOnly", "keyLong":
		// a fetch request whose certificate public key starts with the DER header of an Ed25519 key but is truncated,
		// header-only or over-long (signed with a real key: the signature cannot verify, the shape must not crash anything)
		info, err := r.srv.W.BuildInfo(world.FetchSpec{K: "kx", E: "e1", Nonce: "n1"})
		if err != nil {
			panic(err)
		}
		pk := info.CertificatePublicKeyPkix
		switch cls {
		case "keyTrunc":
			info.CertificatePublicKeyPkix = pk[:len(pk)-1]
		case "keyHeaderOnly":
			info.CertificatePublicKeyPkix = pk[:12]
		case "keyLong":
			info.CertificatePublicKeyPkix = append(append([]byte{}, pk...), 1, 2, 3)
		}
		req, err := r.srv.W.SignInfo(info, "kx")
		if err != nil {
			panic(err)
		}
		bb, _ := proto.Marshal(req)
		c, _ := nodetls.BreakIntoNextProtos(nodeenrollment.FetchNodeCredsNextProtoV1Prefix, base64.RawStdEncoding.EncodeToString(bb))
		return c
	case "rewrapNoKeyInfo":
		// a well-signed fetch request of an unknown node in the relayed ("re-wrapped") shape: it names a registered node as
		// the relay (key ids are not secret) and carries a sealed blob that has a ciphertext but no key information
		info, err := r.srv.W.BuildInfo(world.FetchSpec{K: "kx", E: "e1", Nonce: "n1"})
		if err != nil {
			panic(err)
		}
		req, err := r.srv.W.SignInfo(info, "kx")
		if err != nil {
			panic(err)
		}
		junk := make([]byte, 28)
		r.rng.Read(junk)
		req.RewrappedWrappingRegistrationFlowInfo, _ = proto.Marshal(&wrapping.BlobInfo{Ciphertext: junk})
		req.RewrappingKeyId = r.srv.W.EnsureCertKey("k1").KeyId
		bb, _ := proto.Marshal(req)
		c, _ := nodetls.BreakIntoNextProtos(nodeenrollment.FetchNodeCredsNextProtoV1Prefix, base64.RawStdEncoding.EncodeToString(bb))
		return c
	case "authStateGarbage":
		// an authentication request of a peer without credentials whose client state bytes are not a state structure at all
		ck := r.srv.W.EnsureCertKey("kx")
		nonce := make([]byte, nodeenrollment.NonceSize)
		r.rng.Read(nonce)
		garbage := []byte{0xff, 0xff, 0xff}
		greq := &types.GenerateServerCertificatesRequest{CertificatePublicKeyPkix: ck.Pkix, Nonce: nonce, NonceSignature: ed25519.Sign(ck.Priv, nonce),
			ClientState: garbage, ClientStateSignature: ed25519.Sign(ck.Priv, garbage)}
		bb, _ := proto.Marshal(greq)
		c, _ := nodetls.BreakIntoNextProtos(nodeenrollment.AuthenticateNodeNextProtoV1Prefix, base64.RawStdEncoding.EncodeToString(bb))
		return c
	case "unknownToken", "garbageToken":
		// a well-signed fetch request presenting a well-formed activation token the server does not hold (used up, or
		// never issued), or nonce bytes that are neither 32 long nor a token
		nonce := "tf"
		if cls == "garbageToken" {
			nonce = "tg"
		}
		info, err := r.srv.W.BuildInfo(world.FetchSpec{K: "kx", E: "e1", Nonce: nonce})
		if err != nil {
			panic(err)
		}
		req, err := r.srv.W.SignInfo(info, "kx")
		if err != nil {
			panic(err)
		}
		bb, _ := proto.Marshal(req)
		c, _ := nodetls.BreakIntoNextProtos(nodeenrollment.FetchNodeCredsNextProtoV1Prefix, base64.RawStdEncoding.EncodeToString(bb))
		return c
	}
	return []string{p}
}

// gcHold: between a hostile handshake of class authStateGarbage and the next honest dial the collector is held off, so
// that whatever the listener may keep for re-use between handshakes is still there when the honest node arrives (a
// busy harness process collects far more often than a server does); counted, because behaviours run side by side
var gcHold struct {
	mu  sync.Mutex
	n   int
	old int
}

func gcHoldOn() {
	gcHold.mu.Lock()
	if gcHold.n == 0 {
		gcHold.old = debug.SetGCPercent(-1)
	}
	gcHold.n++
	gcHold.mu.Unlock()
}

func gcHoldOff() {
	gcHold.mu.Lock()
	if gcHold.n > 0 {
		gcHold.n--
		if gcHold.n == 0 {
			debug.SetGCPercent(gcHold.old)
		}
	}
	gcHold.mu.Unlock()
}

func (r *run) malformed(op map[string]any, ln *Line) {
	srv := r.srv
	cls, pfx := s(op, "cls"), s(op, "pfx")
	if cls == "authStateGarbage" && !r.gcHeld {
		r.gcHeld = true
		gcHoldOn()
	}
	network := "tcp"
	if strings.HasPrefix(srv.Addr, "/") {
		network = "unix"
	}
	switch cls {
	case "clientAlert":
		// a TLS client that aborts with a fatal alert after seeing the server certificate
		protos := r.malformedProtos("b64rand", pfx)
		if pfx != "pref" {
			if pfx == "fetch" {
				protos, _ = nodetls.BreakIntoNextProtos(nodeenrollment.FetchNodeCredsNextProtoV1Prefix, r.validFetchB64(false))
			} else if n, ok := srv.Nodes["k1"]; ok && len(n.Creds.CertificateBundles) == 2 && srv.RecordPresent("k1") {
				protos, _, _ = srv.BuildAuthProtos(hs.Client{Kind: "auth", K: "k1", Ck: "k1", Nsig: "k1", Pref: "cur"})
			}
		}
		done := make(chan struct{})
		go func() {
			defer close(done)
			c, err := net.DialTimeout(network, srv.Addr, 2*time.Second)
			if err != nil {
				return
			}
			defer c.Close()
			_ = c.SetDeadline(time.Now().Add(3 * time.Second))
			tc := tls.Client(c, &tls.Config{NextProtos: protos, ServerName: "does-not-match.invalid", MinVersion: tls.VersionTLS12}) // verifies, hence rejects
			_ = tc.Handshake()
		}()
		res := srv.AcceptOne(8 * time.Second)
		r.record(ln, res)
		<-done
	case "resetAfterHandshake":
		// a peer that completes a well-formed credential-fetch handshake (any self-generated key will do) and whose socket
		// is reset right after its last flight: the server's own close of the connection then fails
		protos, _ := nodetls.BreakIntoNextProtos(nodeenrollment.FetchNodeCredsNextProtoV1Prefix, r.validFetchB64(false))
		c, err := net.DialTimeout(network, srv.Addr, 2*time.Second)
		if err != nil {
			ln.Res, ln.Err = "harness-error", err.Error()
			return
		}
		if tcp, ok := c.(*net.TCPConn); ok {
			_ = tcp.SetLinger(0) // close => RST
		}
		_ = c.SetDeadline(time.Now().Add(3 * time.Second))
		cc, _ := srv.ClientCert(hs.Client{Ck: "kx", Chain: "self", Priv: true})
		tc := tls.Client(c, &tls.Config{InsecureSkipVerify: true, NextProtos: protos, MinVersion: tls.VersionTLS13,
			GetClientCertificate: func(*tls.CertificateRequestInfo) (*tls.Certificate, error) { return cc, nil }})
		herr := tc.Handshake()
		c.Close() // the raw socket, without a TLS close_notify
		if herr != nil {
			ln.Obs.ClientErr = herr.Error()
		}
		res := srv.AcceptOne(8 * time.Second)
		r.record(ln, res)
	case "stallSilent", "stallPartial", "stallAfterHello":
		// a peer that opens a connection and then keeps the handshake open without completing it; while it
		// does, an honest registered node dials.  The peer goes away after the hold.
		const hold = 6500 * time.Millisecond
		start := time.Now()
		c, err := net.DialTimeout(network, srv.Addr, 2*time.Second)
		if err != nil {
			ln.Res = "harness-error"
			ln.Err = err.Error()
			return
		}
		switch cls {
		case "stallPartial":
			c.Write([]byte{0x16, 0x03, 0x01})
		case "stallAfterHello":
			// a well-formed hello (a valid credential-fetch request, or a plain application hello), so that the server
			// answers with its flight and then waits for the client
			protos := []string{"app-proto"}
			if pfx == "fetch" {
				protos, _ = nodetls.BreakIntoNextProtos(nodeenrollment.FetchNodeCredsNextProtoV1Prefix, r.validFetchB64(false))
			}
			c.Write(captureClientHello(protos))
		}
		honestOK := false
		if n, ok := srv.Nodes["k1"]; ok && len(n.Creds.CertificateBundles) == 2 && srv.RecordPresent("k1") && r.certKind(r.ngen["k1"]) == "fresh" {
			ln.Obs.StallTried = true
			time.Sleep(300 * time.Millisecond)
			ctx, cancel := context.WithTimeout(context.Background(), 2500*time.Millisecond)
			hc, derr := protocol.Dial(ctx, n.Storage, srv.Addr)
			cancel()
			if derr == nil {
				honestOK = true
				hc.Close()
			}
		}
		ln.Obs.StallHonestOK = honestOK
		if d := hold - time.Since(start); d > 0 {
			time.Sleep(d)
		}
		c.Close()
		skipped := false
		for n := 0; n < 6; n++ {
			res := srv.AcceptOne(1500 * time.Millisecond)
			if res.Kind == "timeout" {
				break
			}
			if res.Conn != nil {
				res.Conn.Close()
			}
			if res.Kind == "auth" && honestOK && !skipped {
				skipped = true // the honest node's own connection
				continue
			}
			r.record(ln, res)
		}
		if len(ln.Obs.Kinds) == 0 {
			r.record(ln, hs.AcceptResult{Kind: "timeout"})
		}
	case "nontls", "silentClose", "dropMidHello", "dropAfterHello", "resetMidHello", "resetAfterHello", "rawSslv2", "rawOversizeRecord", "rawHttp", "rawBadVersion":
		c, err := net.DialTimeout(network, srv.Addr, 2*time.Second)
		if err != nil {
			ln.Res = "harness-error"
			ln.Err = err.Error()
			return
		}
		switch cls {
		case "nontls":
			junk := make([]byte, 1+r.rng.Intn(300))
			r.rng.Read(junk)
			c.Write(junk)
		case "rawSslv2":
			c.Write(append([]byte{0x80, 0x2e, 0x01, 0x00, 0x02}, make([]byte, 44)...))
		case "rawOversizeRecord":
			c.Write([]byte{0x16, 0x03, 0x01, 0xff, 0xff, 0x01, 0x00})
		case "rawHttp":
			c.Write([]byte("GET / HTTP/1.1\r\nHost: x\r\n\r\n"))
		case "rawBadVersion":
			c.Write([]byte{0x16, 0x09, 0x09, 0x00, 0x05, 0x01, 0x00, 0x00, 0x01, 0x00})
		case "dropMidHello", "dropAfterHello", "resetMidHello", "resetAfterHello":
			hello := captureClientHello(r.malformedProtos("b64rand", pfx))
			if strings.HasPrefix(cls, "reset") {
				if tcp, ok := c.(*net.TCPConn); ok {
					_ = tcp.SetLinger(0) // close => RST
				}
			}
			if strings.HasSuffix(cls, "MidHello") && len(hello) > 10 {
				hello = hello[:5+r.rng.Intn(len(hello)-6)]
			}
			c.Write(hello)
		}
		if strings.HasSuffix(cls, "AfterHello") {
			time.Sleep(20 * time.Millisecond)
		}
		c.Close()
		res := srv.AcceptOne(8 * time.Second)
		r.record(ln, res)
	default:
		protos := r.malformedProtos(cls, pfx)
		var cert *tls.Certificate
		if r.rng.Intn(2) == 0 {
			cert, _ = srv.ClientCert(hs.Client{Ck: "kx", Chain: "self", Priv: true})
		}
		res, cerr := srv.Exchange(protos, cert)
		r.record(ln, res)
		ln.Obs.ClientErr = cerr
	}
	ln.Res = summarize(ln.Obs.Kinds)
}

// captureClientHello renders the ClientHello a Go TLS client would send for the
// given ALPN list, by handshaking against a sink.
func captureClientHello(protos []string) []byte {
	a, bconn := net.Pipe()
	done := make(chan []byte, 1)
	go func() {
		buf := make([]byte, 1<<16)
		_ = bconn.SetReadDeadline(time.Now().Add(time.Second))
		n, _ := bconn.Read(buf)
		bconn.Close()
		done <- buf[:n]
	}()
	tc := tls.Client(a, &tls.Config{InsecureSkipVerify: true, NextProtos: protos})
	ctx, cancel := context.WithTimeout(context.Background(), time.Second)
	defer cancel()
	_ = tc.HandshakeContext(ctx)
	a.Close()
	return <-done
}
