// Package alpn runs the real tls.BreakIntoNextProtos / CombineFromNextProtos
// for requested payload lengths and malformed entry lists (C20).
package alpn

import (
	"fmt"
	mrand "math/rand"
	"strings"

	"github.com/hashicorp/nodeenrollment"
	nodetls "github.com/hashicorp/nodeenrollment/tls"

	"verifharness/world"
)

type Behaviour struct {
	Id  string           `json:"id"`
	Ops []map[string]any `json:"ops"`
}

type Obs struct {
	Plen        int    `json:"plen"`
	Count       int    `json:"count"`
	MaxEntry    int    `json:"maxEntry"`
	AllPrefixed bool   `json:"allPrefixed"`
	Rt          bool   `json:"rt"`
	RtForeign   bool   `json:"rtForeign"`
	Panic       bool   `json:"panic"`
	Res         string `json:"res"`
	Msg         string `json:"msg"`
}

type Line struct {
	Tr  string         `json:"tr"`
	I   int            `json:"i"`
	Op  map[string]any `json:"op"`
	Res string         `json:"res"`
	Obs Obs            `json:"obs"`
}

const b64 = "ABCDEFGHIJKLMNOPQRSTUVWXYZabcdefghijklmnopqrstuvwxyz0123456789+/"

func prefix(p string) string {
	if p == "fetch" {
		return nodeenrollment.FetchNodeCredsNextProtoV1Prefix
	}
	return nodeenrollment.AuthenticateNodeNextProtoV1Prefix
}

func num(m map[string]any, k string) int {
	if v, ok := m[k].(float64); ok {
		return int(v)
	}
	return 0
}

func Run(bh Behaviour, seed int64) ([]Line, error) {
	rng := mrand.New(mrand.NewSource(world.Uint64Seed(seed, "alpn/"+bh.Id)))
	var lines []Line
	for i, op := range bh.Ops {
		ln := Line{Tr: bh.Id, I: i + 1, Op: op}
		func() {
			defer func() {
				if p := recover(); p != nil {
					ln.Obs.Panic = true
					ln.Obs.Msg = fmt.Sprint(p)
					ln.Res = "panic"
				}
			}()
			pfx := prefix(fmt.Sprint(op["pfx"]))
			ln.Obs.Plen = len(pfx)
			switch fmt.Sprint(op["op"]) {
			case "RT":
				n := num(op, "n")
				sb := make([]byte, n)
				// payload alphabet: base64 (what the library feeds in), base64 with many '%' (format verbs), any
				// printable ASCII (dashes, digits, percent signs, spaces), any byte
				switch fmt.Sprint(op["alpha"]) {
				case "pct":
					for j := range sb {
						sb[j] = b64[rng.Intn(64)]
						if rng.Intn(6) == 0 {
							sb[j] = "%%%sdvq!-"[rng.Intn(9)]
						}
					}
				case "print":
					for j := range sb {
						sb[j] = byte(0x20 + rng.Intn(0x5f))
					}
				case "bytes":
					rng.Read(sb)
				default:
					for j := range sb {
						sb[j] = b64[rng.Intn(64)]
					}
				}
				v := string(sb)
				chunks, err := nodetls.BreakIntoNextProtos(pfx, v)
				if err != nil {
					ln.Res = "error"
					ln.Obs.Msg = err.Error()
					return
				}
				ln.Obs.Count = len(chunks)
				ln.Obs.AllPrefixed = true
				for _, c := range chunks {
					if len(c) > ln.Obs.MaxEntry {
						ln.Obs.MaxEntry = len(c)
					}
					if !strings.HasPrefix(c, pfx) {
						ln.Obs.AllPrefixed = false
					}
				}
				got, err := nodetls.CombineFromNextProtos(pfx, chunks)
				ln.Obs.Rt = err == nil && got == v
				// interleave unrelated names (and the other library prefixes) at seeded positions
				foreign := []string{"h2", "http/1.1", "app-proto", nodeenrollment.CertificatePreferenceV1Prefix + "some-key-id", "x", ""}
				if pfx == nodeenrollment.FetchNodeCredsNextProtoV1Prefix {
					foreign = append(foreign, nodeenrollment.AuthenticateNodeNextProtoV1Prefix[:10])
				} else {
					foreign = append(foreign, nodeenrollment.FetchNodeCredsNextProtoV1Prefix[:10])
				}
				mixed := make([]string, 0, len(chunks)+4)
				k := 1 + rng.Intn(4)
				pos := map[int][]string{}
				for j := 0; j < k; j++ {
					p := rng.Intn(len(chunks) + 1)
					pos[p] = append(pos[p], foreign[rng.Intn(len(foreign))])
				}
				for j := 0; j <= len(chunks); j++ {
					mixed = append(mixed, pos[j]...)
					if j < len(chunks) {
						mixed = append(mixed, chunks[j])
					}
				}
				got2, err := nodetls.CombineFromNextProtos(pfx, mixed)
				ln.Obs.RtForeign = err == nil && got2 == v
				ln.Res = "ok"
			case "Mal":
				var list []string
				switch fmt.Sprint(op["cls"]) {
				case "bare":
					list = []string{pfx}
				case "short1":
					list = []string{pfx + "0"}
				case "short2":
					list = []string{pfx + "00", "h2"}
				case "nodash":
					list = []string{pfx + "000abc"}
				case "goodThenBad":
					// well-formed entries first, then one the decoder rejects: whatever the decoder had accumulated must not
					// show up in any later call
					list = []string{pfx + "00-STALE-PAYLOAD-OF-A-REJECTED-LIST-", pfx + "01-MORE-STALE-", pfx + "nodashatall"}
				case "onlydash":
					list = []string{pfx + "-"}
				case "mixedshort":
					list = []string{pfx + "00-abc", pfx + "1", "x"}
				case "empties":
					list = []string{"", "", pfx}
				case "none":
					list = []string{"h2", "x"}
				case "random":
					for j := 0; j < 1+rng.Intn(5); j++ {
						bb := make([]byte, rng.Intn(6))
						for q := range bb {
							bb[q] = "0123456789-aZ"[rng.Intn(13)]
						}
						list = append(list, pfx+string(bb))
					}
				}
				_, err := nodetls.CombineFromNextProtos(pfx, list)
				if err != nil {
					ln.Res = "error"
				} else {
					ln.Res = "ok"
				}
			}
		}()
		ln.Obs.Res = ln.Res
		lines = append(lines, ln)
	}
	return lines, nil
}
