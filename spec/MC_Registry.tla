---------------------------- MODULE MC_Registry ----------------------------
(* Bounded exhaustive model of the registry: every history of operator and  *)
(* remote actions (up to MaxGen record creations), and in every reachable   *)
(* state every request of the universe, judged by the property predicates.  *)
EXTENDS Registry

CONSTANTS Enabled,   \* op classes that may occur in histories
          MaxGen,    \* bound on record creations
          CfgSW, CfgNidl, CfgSO, CfgRmErr

VARIABLES st, enr,
          pend    \* token fetches that have loaded their token and not yet removed it ("Race" \in Enabled)

vars == <<st, enr, pend>>

Ops ==
  (IF "Authorize" \in Enabled THEN AuthorizeOps ELSE {}) \cup
  (IF "Token" \in Enabled THEN TokenOps \cup AgeOps ELSE {}) \cup
  (IF "Remove" \in Enabled THEN RemoveOps ELSE {}) \cup
  (IF "Regw" \in Enabled THEN RegwOps ELSE {}) \cup
  (IF "Nid" \in Enabled THEN NidOps ELSE {}) \cup
  (IF "Prev" \in Enabled THEN PrevOps ELSE {}) \cup
  (IF "Tamper" \in Enabled THEN TamperOps ELSE {}) \cup
  (IF "KeyKind" \in Enabled THEN KeyKindOps ELSE {}) \cup
  (IF "Strip" \in Enabled THEN StripOps ELSE {}) \cup
  (IF "Fetch" \in Enabled THEN FetchReqsN ELSE {}) \cup
  (IF "Rotate" \in Enabled THEN RotateOps ELSE {})

Init == st = InitState([sw |-> CfgSW, nidl |-> CfgNidl, so |-> CfgSO, rmerr |-> CfgRmErr]) /\ enr = [t \in Tokens |-> {}] /\ pend = {}

TokenEnrol(o, res) == o.op = "Fetch" /\ o.n \in Tokens /\ ~HasWrapped(o) /\ ~HasRewrapped(o) /\ res = "issued"

Atomic == \E o \in Ops :
          LET out == Apply(st, o) IN
            /\ out.res # "skip"
            /\ out.st # st          \* no-op transitions add nothing: invariants already judge every request in every state
            /\ out.st.gen <= MaxGen
            /\ st' = out.st
            /\ enr' = IF TokenEnrol(o, out.res) THEN [enr EXCEPT ![o.n] = @ \cup {o.k}] ELSE enr
            /\ pend' = pend

\* The token fetch as the code runs it: two critical sections.  TokLoad: load the token record, check it (live, not
\* expired, key not registered).  TokFinish: remove the token record - refused only where removing an absent entry is
\* an error - then authorise the key.
TokLoad == "Race" \in Enabled /\ \E k \in CertKeys, e \in EncKeys, t \in Tokens :
             /\ Live(st.tokens[t]) /\ ~st.nodes[k].present /\ [k |-> k, e |-> e, t |-> t, s |-> st.tokens[t].state] \notin pend
             /\ pend' = pend \cup {[k |-> k, e |-> e, t |-> t, s |-> st.tokens[t].state]}
             /\ UNCHANGED <<st, enr>>
TokFinish == \E p \in pend :
             /\ pend' = pend \ {p}
             /\ IF (~Live(st.tokens[p.t]) /\ st.cfg.rmerr) \/ st.gen >= MaxGen THEN UNCHANGED <<st, enr>>
                ELSE /\ st' = AuthorizeCommon([st EXCEPT !.tokens[p.t] = [st |-> "gone", state |-> NONE]], p.k, p.e, p.t, p.s)
                     /\ enr' = [enr EXCEPT ![p.t] = @ \cup {p.k}]

Next == Atomic \/ TokLoad \/ TokFinish

Spec == Init /\ [][Next]_vars

\* C01: in every reachable state, every well-signed request gets an allowed outcome
InvC01 == \A r \in FetchReqsN : LET out == DoFetch(st, r) IN AllowedC01(st, r, out.res, out.st)

\* C06
InvC06Step == \A r \in FetchReqsN : LET out == DoFetch(st, r) IN AllowedC06(st, r, out.res, out.st)
InvC06Once == \A t \in Tokens : Cardinality(enr[t]) <= 1
\* a token that enrolled someone is gone for good
InvC06Gone == \A t \in Tokens : enr[t] # {} => ~Live(st.tokens[t])

\* C03: an invalid request is refused and changes nothing, whatever the registry holds
InvC03 == \A v \in SubmitOps : LET out == DoSubmit(st, v) IN
             /\ AllowedC03(v, out.res, IF out.st = st THEN 0 ELSE 1)
             /\ (ValidReq(v) /\ v.api = "authorize" /\ ~st.nodes[v.k].present => out.res = "ok")

\* C05
InvC05 == \A q \in GenCertOps : AllowedC05(st, q, DoGenCerts(st, q).res)

\* C10
InvC10 == \A q \in RotateOps : LET out == DoRotate(st, q) IN AllowedC10(st, q, out.res, out.st)

\* anti-vacuity witnesses: these must be VIOLATED (checked by separate configs)
NeverIssuedByCaseC == \A r \in FetchReqsN : ~(DoFetch(st, r).res = "issued" /\ ~CaseA(st, r) /\ ~CaseB(st, r))
NeverRotated == \A q \in RotateOps : DoRotate(st, q).res # "rotated"
=============================================================================
