SPECIFICATION Spec
CONSTANTS
  CertKeys = {"k1","k2","k3"}
  EncKeys = {"e1"}
  Nonces = {"n1"}
  Tokens = {}
  AppStates = {"s1"}
  NodeIds = {"N1"}
  Enabled = {"Authorize","Remove","Nid","Prev","Rotate","Strip"}
  MaxGen = 2
  CfgSW = FALSE
  CfgNidl = TRUE
  CfgSO = FALSE
  CfgRmErr = FALSE
INVARIANTS InvC10
CHECK_DEADLOCK FALSE
