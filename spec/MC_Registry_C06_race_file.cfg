SPECIFICATION Spec
CONSTANTS
  CertKeys = {"k1","k2"}
  EncKeys = {"e1"}
  Nonces = {"n1"}
  Tokens = {"t1","t2"}
  AppStates = {}
  NodeIds = {"N1"}
  Enabled = {"Token","Race"}
  MaxGen = 2
  CfgSW = TRUE
  CfgNidl = FALSE
  CfgSO = FALSE
  CfgRmErr = TRUE
INVARIANTS InvC06Once
CHECK_DEADLOCK FALSE
