SPECIFICATION Spec
CONSTANTS
  Conns = {"A","B"}
  KindOf <- KTokTok
  N = 1
  Spare = 2
  Sharing = "app"
INVARIANTS Isolation NoSharedWrite
CHECK_DEADLOCK FALSE
