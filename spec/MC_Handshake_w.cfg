SPECIFICATION Spec
CONSTANTS
  CertKeys = {"k1","k2","k3"}
  CfgNidl = TRUE
  CfgBase = TRUE
INVARIANTS NeverAuth
CHECK_DEADLOCK FALSE
