------------------------------- MODULE Faults -------------------------------
(***************************************************************************)
(* Storage faults (C13).  Every public call is a sequence of storage       *)
(* operations (the order in which the code issues them); exactly one of    *)
(* them may fail with a generic error, a not-found error or a cancelled    *)
(* context.  Per step:                                                     *)
(*   kind    : Load | Store | Remove | LoadByNodeId                        *)
(*   nf      : "absent" - a not-found answer is an expected outcome and the *)
(*             call goes on as if the record were absent; "stop" - the     *)
(*             call answers "nothing to hand out" without error; "fail"    *)
(*   ignored : the code ignores this operation's error                     *)
(*   effect  : what a SUCCESSFUL execution of the step changes             *)
(*             ("none", "token-", "record+", "roots=", "token+", "creds=") *)
(* The call succeeds iff it gets through all its steps; what it hands out  *)
(* is built from what its Store steps persisted.                           *)
(***************************************************************************)
EXTENDS Integers, Sequences, FiniteSets, TLC

S(kind, nf, ignored, effect) == [kind |-> kind, nf |-> nf, ignored |-> ignored, effect |-> effect]

Flows ==
  [authorize      |-> <<S("Load", "absent", FALSE, "none"), S("Load", "fail", FALSE, "none"), S("Store", "fail", FALSE, "record+")>>,
   fetchNodeLed   |-> <<S("Load", "stop", FALSE, "none"), S("Load", "fail", FALSE, "none")>>,
   fetchToken     |-> <<S("Load", "fail", FALSE, "none"), S("Remove", "fail", FALSE, "token-"), S("Load", "absent", TRUE, "none"),
                        S("Load", "fail", FALSE, "none"), S("Store", "fail", FALSE, "record+"), S("Load", "fail", FALSE, "none")>>,
   fetchWrapped   |-> <<S("Load", "fail", FALSE, "none"), S("Store", "fail", FALSE, "record+"), S("Load", "fail", FALSE, "none")>>,
   fetchRewrapped |-> <<S("Load", "fail", FALSE, "none"), S("Load", "fail", FALSE, "none"), S("Store", "fail", FALSE, "record+"), S("Load", "fail", FALSE, "none")>>,
   createToken    |-> <<S("Store", "fail", FALSE, "token+")>>,
   rotateRoots    |-> <<S("Load", "absent", FALSE, "none"), S("Store", "fail", FALSE, "roots=")>>,
   rotateRoots0   |-> <<S("Load", "absent", FALSE, "none"), S("Store", "fail", FALSE, "roots=")>>,   \* from empty storage
   reinitRoots    |-> <<S("Remove", "fail", FALSE, "roots-"), S("Load", "absent", FALSE, "none"), S("Store", "fail", FALSE, "roots=")>>,
   rotateNode     |-> <<S("Load", "fail", FALSE, "none"), S("Load", "absent", FALSE, "none"), S("Load", "fail", FALSE, "none"),
                        S("Store", "fail", FALSE, "record+"), S("Load", "stop", FALSE, "none"), S("Load", "fail", FALSE, "none")>>,
   serverCerts    |-> <<S("Load", "fail", FALSE, "none"), S("Load", "fail", FALSE, "none")>>,
   \* the node reports a node id and the storage looks records up by node id
   serverCertsNodeId |-> <<S("LoadByNodeId", "fail", FALSE, "none"), S("Load", "fail", FALSE, "none")>>,
   \* a second call for the same node on the same storage, after a first, fault-free one and a
   \* reinitialisation of the roots (nothing is remembered between calls: what is handed out is issued by the roots in storage)
   serverCertsAgain  |-> <<S("Load", "fail", FALSE, "none"), S("Load", "fail", FALSE, "none")>>,
   nodeNew        |-> <<S("Store", "fail", FALSE, "creds=")>>,
   nodeHandle     |-> <<S("Store", "fail", FALSE, "creds=")>>,
   \* the node handles a server-led response; when that fails it handles the SAME response again with the same object: the
   \* retry is a second, fault-free run of the same single step (success must then mean the credentials are stored)
   nodeHandleTokenRetry |-> <<S("Store", "fail", FALSE, "creds=")>>,
   \* the first protocol.Dial of an authorised node: load the stored credentials, (fetch over TLS,) store them, connect
   nodeDialFirst  |-> <<S("Load", "fail", FALSE, "none"), S("Store", "fail", FALSE, "creds=")>>]

FlowNames == DOMAIN Flows
\* "ctxdone": the caller's context is REALLY cancelled when the operation starts (the back ends look at the context, so the
\* operation fails with the cancellation, and ctx.Err() stays set for whatever the call does next)
Kinds == {"generic", "notfound", "cancelled", "ctxdone"}

\* does the call get past step i when that step fails with kind k
Survives(st, k) == st.ignored \/ (k = "notfound" /\ st.kind \in {"Load", "LoadByNodeId"} /\ st.nf \in {"absent", "stop"})

\* flows whose caller runs the whole call a second time (fault-free: the fault is transient) when the first run fails
Retried == {"nodeHandleTokenRetry"}

\* outcome of running flow f with a fault of kind k at position pos (0 = no fault)
Run0(f, pos, k) ==
  LET steps == Flows[f]
      n == Len(steps)
      failsAt == IF pos \in 1..n /\ ~Survives(steps[pos], k) THEN pos ELSE 0
      stopsAt == IF pos \in 1..n /\ k = "notfound" /\ steps[pos].nf = "stop" /\ ~steps[pos].ignored THEN pos ELSE 0
      done == IF failsAt # 0 THEN failsAt - 1 ELSE IF stopsAt # 0 THEN stopsAt - 1 ELSE n
      effects == {steps[i].effect : i \in {j \in 1..done : j # pos}} \ {"none"}
  IN [res |-> IF failsAt # 0 THEN "error" ELSE "ok",
      handed |-> failsAt = 0 /\ stopsAt = 0,
      effects |-> effects]

Run1(f, pos, k) == Run0(f, pos, IF k = "ctxdone" THEN "cancelled" ELSE k)

Run(f, pos, k) == LET r == Run1(f, pos, k) IN IF f \in Retried /\ r.res = "error" THEN Run1(f, 0, k) ELSE r

\* C13 on the model: an error hands out nothing; a success that hands something out has persisted what it made;
\* a token consumed for a record is gone before the record exists
ModelOK(f, pos, k) ==
  LET r == Run(f, pos, k) stores == {Flows[f][i].effect : i \in {j \in 1..Len(Flows[f]) : Flows[f][j].kind = "Store"}} IN
  /\ (r.res = "error" => ~r.handed)
  /\ (r.handed => stores \subseteq r.effects)
  /\ ("record+" \in r.effects /\ f = "fetchToken" => "token-" \in r.effects)

(* C13 on an observed call: facts logged by the driver *)
AllowedC13(o) ==
  /\ (o.res = "error" => ~o.handed)                       \* an error hands out no credentials, tokens or certificates
  /\ (o.res = "ok" /\ o.handed => o.persisted)            \* success is fully reflected in storage
  /\ ~(o.recordCreated /\ o.tokenUsable)                  \* a token consumed to create a record is never left usable
  /\ (o.res = "error" => ~o.othersChanged)                \* a failed call never alters or removes another node's record
=============================================================================
