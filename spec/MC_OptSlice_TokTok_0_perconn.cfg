SPECIFICATION Spec
CONSTANTS
  Conns = {"A","B"}
  KindOf <- KTokTok
  N = 1
  Spare = 0
  Sharing = "perconn"
INVARIANTS Isolation NoSharedWrite
CHECK_DEADLOCK FALSE
