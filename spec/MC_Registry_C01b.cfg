SPECIFICATION Spec
CONSTANTS
  CertKeys = {"k1","k2"}
  EncKeys = {"e1","e2"}
  Nonces = {"n1"}
  Tokens = {"t1"}
  AppStates = {"s1"}
  NodeIds = {"N1"}
  Enabled = {"Authorize","Token","Remove","Regw","Fetch","Prev"}
  MaxGen = 3
  CfgSW = FALSE
  CfgNidl = FALSE
  CfgSO = FALSE
  CfgRmErr = FALSE
INVARIANTS InvC01
CHECK_DEADLOCK FALSE
