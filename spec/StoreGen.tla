------------------------------ MODULE StoreGen ------------------------------
EXTENDS Store, Json
CONSTANT Depth
VARIABLES m, hist, done
vars == <<m, hist, done>>
RE(S) == RandomElement(S)
RandOp(n) == LET k == RE({"Store", "Store", "Store", "Load", "Load", "Remove", "List"})
              t == RE({"ni", "ni", "nc", "rc", "tk", "tk", "bad", "nil"})
              id == RE(Ids \cup Ids \cup {""})
          IN IF k = "Store" THEN [op |-> k, t |-> t, id |-> id, v |-> RE(Vals)]
             ELSE IF k = "List" THEN [op |-> k, t |-> t, id |-> "", v |-> Absent]
             ELSE IF k = "Load" THEN [op |-> k, t |-> t, id |-> id, v |-> Absent, dirty |-> RE(BOOLEAN)]   \* dirty: the destination was used before
             ELSE [op |-> k, t |-> t, id |-> id, v |-> Absent]
Init == m = InitMap /\ hist = <<>> /\ done = FALSE
Step == /\ Len(hist) < Depth
        /\ \E o \in {RandOp(Len(hist))} : m' = Apply(m, o).m /\ hist' = Append(hist, o) /\ done' = FALSE
Emit == Len(hist) = Depth /\ ~done /\ PrintT(<<"BEH", ToJson(hist)>>) /\ done' = TRUE /\ UNCHANGED <<m, hist>>
Next == Step \/ Emit
Spec == Init /\ [][Next]_vars
=============================================================================
