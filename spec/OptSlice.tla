------------------------------ MODULE OptSlice ------------------------------
(***************************************************************************)
(* Go slice semantics behind C15.  The application hands the intercepting  *)
(* listener an option slice with length N and capacity N + Spare.  Every   *)
(* handshake takes a slice header onto it and appends per-connection       *)
(* options (protocol/tls.go), and the token flow appends the token's state *)
(* to the slice it was GIVEN (registration/register_server_led.go).        *)
(* append writes in place when the header's length is below the capacity   *)
(* of the backing array, otherwise it copies to a private array.           *)
(*                                                                         *)
(* Sharing: "app"      - handshakes append onto the application's array    *)
(*          "listener" - the listener keeps its own copy WITH spare room   *)
(*                       and handshakes append onto that                   *)
(*          "perconn"  - every handshake works on a private copy           *)
(* Programs are cut at the points where a handshake can be descheduled for *)
(* long: storage calls and the two callbacks.                              *)
(***************************************************************************)
EXTENDS Integers, Sequences, FiniteSets, TLC

CONSTANTS Conns,      \* connection ids, e.g. {"A","B"}
          KindOf,     \* [Conns -> {"auth","token","rejected"}]
          N, Spare,   \* application slice: length and spare capacity
          Sharing

Cap == N + Spare
BASE == <<"base", "">>
FREE == <<"free", "">>
NOTHING == <<"none", "">>
Base == [i \in 1..N |-> BASE]
Slots == 1..Cap

VARIABLES arr,     \* the shared backing array (application's or listener's), slots 1..Cap; "free" beyond N
          appArr,  \* what the application sees in its own slice's spare slots
          pc, len, priv,   \* per connection: program counter, header length, private array (<<>> while sharing)
          readState, readKey   \* what the connection read back at its use sites

vars == <<arr, appArr, pc, len, priv, readState, readKey>>

Init == /\ arr = [i \in Slots |-> IF i <= N THEN BASE ELSE FREE]
        /\ appArr = [i \in Slots |-> IF i <= N THEN BASE ELSE FREE]
        /\ pc = [c \in Conns |-> "start"] /\ len = [c \in Conns |-> N] /\ priv = [c \in Conns |-> <<>>]
        /\ readState = [c \in Conns |-> NOTHING] /\ readKey = [c \in Conns |-> NOTHING]

Private(c) == priv[c] # <<>>
PMax == N + 4
PrivInit == [i \in 1..PMax |-> IF i <= N THEN BASE ELSE FREE]
\* append(v) on connection c's header: in place when there is room (shared or private array), else a private copy
GoAppend(c, v) ==
  IF Private(c) THEN /\ priv' = [priv EXCEPT ![c][len[c] + 1] = v] /\ len' = [len EXCEPT ![c] = len[c] + 1] /\ UNCHANGED <<arr, appArr>>
  ELSE IF len[c] < Cap THEN
       /\ arr' = [arr EXCEPT ![len[c] + 1] = v]
       /\ appArr' = IF Sharing = "app" THEN [appArr EXCEPT ![len[c] + 1] = v] ELSE appArr
       /\ len' = [len EXCEPT ![c] = len[c] + 1] /\ UNCHANGED priv
  ELSE /\ priv' = [priv EXCEPT ![c] = [i \in 1..PMax |-> IF i <= len[c] THEN arr[i] ELSE IF i = len[c] + 1 THEN v ELSE FREE]]
       /\ len' = [len EXCEPT ![c] = len[c] + 1] /\ UNCHANGED <<arr, appArr>>
Read(c, i) == IF Private(c) THEN priv[c][i] ELSE arr[i]

\* taking the header at the start of a handshake
Start(c) == /\ pc[c] = "start"
            /\ IF Sharing = "perconn" THEN priv' = [priv EXCEPT ![c] = PrivInit] ELSE UNCHANGED priv
            /\ pc' = [pc EXCEPT ![c] = IF KindOf[c] = "token" THEN "tokAppend" ELSE "gen"]
            /\ UNCHANGED <<arr, appArr, len, readState, readKey>>
\* token flow: append the token's state to the given slice, then (storage Remove: a long call) read it back for the record
TokAppend(c) == pc[c] = "tokAppend" /\ GoAppend(c, <<"state", c>>) /\ pc' = [pc EXCEPT ![c] = "tokStore"] /\ UNCHANGED <<readState, readKey>>
TokStore(c) == /\ pc[c] = "tokStore" /\ readState' = [readState EXCEPT ![c] = Read(c, N + 1)]
               /\ len' = [len EXCEPT ![c] = N]                      \* back in tls.go the handshake's own header still has length N
               \* ... and, if the callee had to reallocate, the caller's header still points at the array it started with
               /\ priv' = [priv EXCEPT ![c] = IF Sharing = "perconn" THEN priv[c] ELSE <<>>]
               /\ pc' = [pc EXCEPT ![c] = "fetchOpts"] /\ UNCHANGED <<arr, appArr, readKey>>
FetchOpts(c) == pc[c] = "fetchOpts" /\ GoAppend(c, <<"servername", c>>) /\ pc' = [pc EXCEPT ![c] = "gen"] /\ UNCHANGED <<readState, readKey>>
\* generateServerCertificatesFn: a callback (long call); a rejected connection ends here
Gen(c) == /\ pc[c] = "gen" /\ pc' = [pc EXCEPT ![c] = IF KindOf[c] = "rejected" THEN "done" ELSE "key"]
          /\ UNCHANGED <<arr, appArr, len, priv, readState, readKey>>
Key(c) == pc[c] = "key" /\ GoAppend(c, <<"key", c>>) /\ pc' = [pc EXCEPT ![c] = "conf"] /\ UNCHANGED <<readState, readKey>>
\* ServerConfig parses the options: the LAST expected-key option wins
Conf(c) == /\ pc[c] = "conf" /\ readKey' = [readKey EXCEPT ![c] = Read(c, len[c])]
           /\ pc' = [pc EXCEPT ![c] = "done"] /\ UNCHANGED <<arr, appArr, len, priv, readState>>

Next == \E c \in Conns : Start(c) \/ TokAppend(c) \/ TokStore(c) \/ FetchOpts(c) \/ Gen(c) \/ Key(c) \/ Conf(c)
Spec == Init /\ [][Next]_vars

\* C15: what a connection reads back is what it appended itself
Isolation == \A c \in Conns :
               /\ (readState[c] # NOTHING => readState[c] = <<"state", c>>)
               /\ (readKey[c] # NOTHING => readKey[c] = <<"key", c>>)
\* the application's slice is never written beyond its length
NoSharedWrite == \A i \in (N + 1)..Cap : appArr[i] = FREE
=============================================================================
