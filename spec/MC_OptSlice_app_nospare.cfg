SPECIFICATION Spec
CONSTANTS
  Conns = {"A","B"}
  KindOf <- KTokTok
  N = 1
  Spare = 0
  Sharing = "app"
INVARIANTS Isolation NoSharedWrite
CHECK_DEADLOCK FALSE
