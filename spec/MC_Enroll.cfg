SPECIFICATION Spec
INVARIANTS InvOutcome InvRecord NoStuck
PROPERTIES Completes
CHECK_DEADLOCK FALSE
