SPECIFICATION Spec
CONSTANTS
  Budget = 3
  Radix = 3
  Decoder = "fixed3"
  MaxLen = 90
INVARIANTS InvRoundTrip InvForeign InvPrefixAndCount
CHECK_DEADLOCK FALSE
