----------------------------- MODULE SplitTrace -----------------------------
EXTENDS Split, Json
CONSTANTS TraceFile, Props
TraceLog == ndJsonDeserialize(TraceFile)
VARIABLES l, cnt
vars == <<l, cnt>>
Cfg(e) == [reg |-> SeqToSet(e.cfg.reg), native |-> SeqToSet(e.cfg.native)]
Viols(e) ==
  IF e.op.op = "Client" THEN
    LET cf == Cfg(e) c == [kind |-> e.op.kind, extras |-> e.op.extras] IN
    (IF e.obs.from \notin {UNAUTH, "none"} /\ ~(c.kind \in NodeKinds /\ e.obs.auth) THEN {"unauthenticated-connection-from-authenticated-sublistener"} ELSE {}) \cup
    (IF e.obs.deliveries > 1 THEN {"connection-delivered-more-than-once"} ELSE {}) \cup
    (IF ~AllowedC17(cf, c, e.obs.from, e.obs.native, e.obs.auth) THEN {"routing-or-connection-type"} ELSE {})
  ELSE IF e.op.op = "Lookup" THEN (IF e.res # "same" THEN {"second-lookup-did-not-return-the-registered-sublistener"} ELSE {})
  ELSE IF e.op.op = "CloseBase" THEN (IF ~e.obs.allClosed THEN {"sublistener-not-closed-after-base-closed"} ELSE {})
  ELSE {}
Init == l = 1 /\ cnt = [lines |-> 0, nontrivial |-> 0, drift |-> 0, viol |-> 0, unc |-> 0]
Step ==
  /\ l <= Len(TraceLog)
  /\ LET e == TraceLog[l] vs == IF e.res = "harness-error" THEN {} ELSE Viols(e)
         drift == e.op.op = "Client" /\ e.res # "harness-error" /\ e.obs.from \notin Routes(Cfg(e), [kind |-> e.op.kind, extras |-> e.op.extras]) IN
       /\ \A v \in vs : PrintT(<<"VIOL", "C17", v, e.tr, e.i>>)
       /\ (drift => PrintT(<<"DRIFT", e.tr, e.i, e.op.op, "route", e.obs.from, FALSE>>))
       /\ cnt' = [lines |-> cnt.lines + 1, nontrivial |-> cnt.nontrivial + (IF e.op.op = "Client" THEN 1 ELSE 0),
                  drift |-> cnt.drift + (IF drift THEN 1 ELSE 0), viol |-> cnt.viol + Cardinality(vs), unc |-> 0]
       /\ l' = l + 1
Finish == l = Len(TraceLog) + 1 /\ PrintT(<<"DONE", cnt.lines, cnt.nontrivial, cnt.drift, cnt.viol, cnt.unc>>) /\ l' = l + 1 /\ UNCHANGED cnt
Next == Step \/ Finish
Spec == Init /\ [][Next]_vars
=============================================================================
