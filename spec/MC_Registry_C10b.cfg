SPECIFICATION Spec
CONSTANTS
  CertKeys = {"k1","k2"}
  EncKeys = {"e1","e2"}
  Nonces = {"n1"}
  Tokens = {"t1"}
  AppStates = {"s1"}
  NodeIds = {"N1"}
  Enabled = {"Authorize","Remove","Nid","Prev","Rotate","Strip","Token"}
  MaxGen = 3
  CfgSW = FALSE
  CfgNidl = TRUE
  CfgSO = FALSE
  CfgRmErr = FALSE
INVARIANTS InvC10
CHECK_DEADLOCK FALSE
