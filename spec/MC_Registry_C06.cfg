SPECIFICATION Spec
CONSTANTS
  CertKeys = {"k1","k2"}
  EncKeys = {"e1","e2"}
  Nonces = {"n1"}
  Tokens = {"t1","t2"}
  AppStates = {"s1"}
  NodeIds = {"N1"}
  Enabled = {"Authorize","Token","Remove","Fetch","Tamper"}
  MaxGen = 2
  CfgSW = TRUE
  CfgNidl = FALSE
  CfgSO = FALSE
  CfgRmErr = FALSE
INVARIANTS InvC06Step InvC06Once InvC06Gone
CHECK_DEADLOCK FALSE
