SPECIFICATION Spec
CONSTANTS
  Budget = 3
  Radix = 3
  Decoder = "dash"
  MaxLen = 90
INVARIANTS InvRoundTrip InvForeign InvPrefixAndCount
CHECK_DEADLOCK FALSE
