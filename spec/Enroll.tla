------------------------------- MODULE Enroll -------------------------------
(***************************************************************************)
(* Honest enrolment (C04): one honest node, one server, one of four flows: *)
(*   operator  : request -> operator authorises -> fetch -> handle         *)
(*   token     : operator creates token -> request(token) -> fetch(handle) *)
(*   wrapped   : request carries info sealed with the server's wrapper     *)
(*   rewrapped : an already registered intermediate re-seals the info      *)
(* The response is the symbolic record                                     *)
(*   [encTo, nonce, sigBy, chains]  and each chain [root, subject, ca,     *)
(*   eku, cn, within]; the node-side Handle refuses unless the response    *)
(*   opens under its own key and echoes its nonce.                         *)
(***************************************************************************)
EXTENDS Integers, Sequences, FiniteSets, TLC

Flows == {"operator", "token", "wrapped", "rewrapped"}
Backends == {"inmem", "file", "storeonce"}
Substs == {"none", "wrongKey", "tamper", "wrongServerPub", "nonce32", "nonceToken", "swapBundles"}
\* roots: "fresh" - both server roots are within their validity; "curExpired" - the current root has just expired and
\* rotation has not run yet (the next root is valid).  The code issues one chain per STORED root either way, and the node
\* connects through the chain of the root that is still valid.
RootAges == {"fresh", "curExpired"}
Configs == [flow : Flows, backend : Backends, sw : BOOLEAN, state : {"none", "s1"}, params : BOOLEAN, subst : Substs, roots : RootAges]

VARIABLES cfg, pc, srv, resp, nodeHas
vars == <<cfg, pc, srv, resp, nodeHas>>

\* srv: what the server holds: [token, midRegistered, record]
Init == /\ cfg \in Configs /\ pc = "start" /\ resp = "none" /\ nodeHas = "none"
        /\ srv = [token |-> FALSE, mid |-> FALSE, record |-> FALSE]

Prepare == pc = "start" /\
           srv' = [srv EXCEPT !.token = (cfg.flow = "token"), !.mid = (cfg.flow = "rewrapped")] /\
           pc' = "requested" /\ UNCHANGED <<cfg, resp, nodeHas>>
Authorize == pc = "requested" /\ cfg.flow = "operator" /\ srv' = [srv EXCEPT !.record = TRUE] /\ pc' = "authorized" /\ UNCHANGED <<cfg, resp, nodeHas>>
SkipAuthorize == pc = "requested" /\ cfg.flow # "operator" /\ pc' = "authorized" /\ UNCHANGED <<cfg, srv, resp, nodeHas>>
\* the fetch is answered iff the flow's authorisation is in place
Fetch == pc = "authorized" /\
         (\/ (cfg.flow = "operator" /\ srv.record)
          \/ (cfg.flow = "token" /\ srv.token)
          \/ cfg.flow = "wrapped"
          \/ (cfg.flow = "rewrapped" /\ srv.mid)) /\
         srv' = [srv EXCEPT !.record = TRUE, !.token = FALSE] /\
         resp' = [encTo |-> "nodeKey", nonce |-> "nodeNonce", sigBy |-> "current", chains |-> <<"current", "next">>] /\
         pc' = "fetched" /\ UNCHANGED <<cfg, nodeHas>>
\* the node's Handle: refuses a response that does not open under its key or echoes another nonce
Substituted(r, s) ==
  CASE s = "wrongKey" -> [r EXCEPT !.encTo = "otherKey"]
    [] s = "tamper" -> [r EXCEPT !.encTo = "nobody"]
    [] s = "wrongServerPub" -> [r EXCEPT !.encTo = "otherSecret"]
    [] s = "nonce32" -> [r EXCEPT !.nonce = "otherNonce"]
    [] s = "nonceToken" -> [r EXCEPT !.nonce = "otherToken"]
    [] s = "swapBundles" -> [r EXCEPT !.nonce = "otherNonce"]
    [] OTHER -> r
Accepts(r) == r.encTo = "nodeKey" /\ r.nonce = "nodeNonce"
Handle == pc = "fetched" /\
          LET r == Substituted(resp, cfg.subst) IN
            /\ nodeHas' = IF Accepts(r) THEN "credentials" ELSE "refused"
            /\ pc' = "done"
          /\ UNCHANGED <<cfg, srv, resp>>
Next == Prepare \/ Authorize \/ SkipAuthorize \/ Fetch \/ Handle \/ (pc = "done" /\ UNCHANGED vars)
Spec == Init /\ [][Next]_vars /\ WF_vars(Next)

\* honest enrolment always completes, with credentials unless the response was substituted
Completes == <>(pc = "done")
InvOutcome == pc = "done" => (nodeHas = "credentials" <=> cfg.subst = "none")
InvRecord == pc \in {"fetched", "done"} => srv.record /\ ~srv.token
NoStuck == pc # "done" => ENABLED (Prepare \/ Authorize \/ SkipAuthorize \/ Fetch \/ Handle)

(* what C04 requires of an observed honest enrolment (obs as logged by the driver) *)
HonestViolations(o) ==
  (IF ~o.issued THEN {"honest-enrolment-not-answered"} ELSE {}) \cup
  (IF o.issued /\ ~o.opensRight THEN {"response-does-not-open-with-the-requesting-key"} ELSE {}) \cup
  (IF o.issued /\ o.opensOther THEN {"response-opens-with-another-key"} ELSE {}) \cup
  (IF o.issued /\ o.opensRight /\ ~o.echo THEN {"response-does-not-echo-the-nonce"} ELSE {}) \cup
  (IF o.issued /\ ~o.sigCur THEN {"response-not-signed-by-current-root"} ELSE {}) \cup
  (IF o.issued /\ o.opensRight /\ (o.chains # 2 \/ ~o.chainRoots) THEN {"not-one-chain-per-root"} ELSE {}) \cup
  (IF o.issued /\ o.opensRight /\ ~o.certsOK THEN {"certificate-defect"} ELSE {}) \cup
  (IF o.issued /\ o.opensRight /\ ~o.storedEq THEN {"stored-record-differs-from-response"} ELSE {}) \cup
  (IF o.issued /\ o.opensRight /\ ~o.handleOK THEN {"node-refuses-honest-response"} ELSE {}) \cup
  (IF o.issued /\ o.handleOK /\ (o.clientConfs < 1 \/ ~o.dialOK) THEN {"stored-credentials-do-not-yield-working-client-tls"} ELSE {}) \cup
  \* second stage: the same identity fetches again (wrapper flows) with a replaced encryption key; the server may
  \* refuse, but whatever it answers must be bound to the key and nonce of THAT signed request
  (IF o.reIssued /\ ~o.reOpensRight THEN {"second-response-does-not-open-with-the-requesting-key"} ELSE {}) \cup
  (IF o.reIssued /\ o.reOpensOld THEN {"second-response-opens-with-the-replaced-key"} ELSE {}) \cup
  (IF o.reIssued /\ o.reOpensRight /\ ~o.reEcho THEN {"second-response-does-not-echo-the-nonce"} ELSE {}) \cup
  (IF o.reIssued /\ o.reOpensRight /\ ~o.reStoredEq THEN {"second-stored-record-differs-from-response"} ELSE {}) \cup
  \* third stage: the server's roots were replaced and the node fetched again with the same credentials (overwriting
  \* back ends): whatever is answered is signed by the PRESENT current root and carries one chain per present root
  (IF o.rrIssued /\ ~o.rrOpens THEN {"response-after-root-change-does-not-open-with-the-requesting-key"} ELSE {}) \cup
  (IF o.rrIssued /\ ~o.rrSigCur THEN {"response-after-root-change-not-signed-by-current-root"} ELSE {}) \cup
  (IF o.rrIssued /\ o.rrOpens /\ ~o.rrChainRoots THEN {"response-after-root-change-not-one-chain-per-present-root"} ELSE {})
=============================================================================
