SPECIFICATION Spec
CONSTANTS
  Ids = {"a","b"}
  Vals = {"v1","v2"}
  RemoveAbsentErr = FALSE
  StoreOnce = FALSE
  MaxOps = 5
INVARIANTS InvC19
CHECK_DEADLOCK FALSE
