---------------------------- MODULE MC_OptSlice ----------------------------
EXTENDS OptSlice
KTokTok == [c \in {"A", "B"} |-> "token"]
KTokAuth == [c \in {"A", "B"} |-> IF c = "A" THEN "token" ELSE "auth"]
KAuthAuth == [c \in {"A", "B"} |-> "auth"]
KAuthRej == [c \in {"A", "B"} |-> IF c = "A" THEN "auth" ELSE "rejected"]
=============================================================================
