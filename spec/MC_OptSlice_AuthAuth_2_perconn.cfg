SPECIFICATION Spec
CONSTANTS
  Conns = {"A","B"}
  KindOf <- KAuthAuth
  N = 1
  Spare = 2
  Sharing = "perconn"
INVARIANTS Isolation NoSharedWrite
CHECK_DEADLOCK FALSE
