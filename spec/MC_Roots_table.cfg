SPECIFICATION Spec
CONSTANTS
  L = 4
  SKNBabs = 1
  SKNA = 1
  GridHalf = 3
  R = 1
  NExtra = 0
  T = 0
  Mode = "table"
INVARIANTS InvC08 InvDecide
CHECK_DEADLOCK FALSE
