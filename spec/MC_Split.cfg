SPECIFICATION Spec
CONSTANTS
  Specific = {"sp1","sp2"}
INVARIANTS InvC17 InvAuthOnly
CHECK_DEADLOCK FALSE
