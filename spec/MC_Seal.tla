------------------------------ MODULE MC_Seal ------------------------------
(* C11: every (sender, receiver current/previous) combination; Dec's result  *)
(* is the original exactly when secret and key id agree with the current or *)
(* the previous pair.  C12: the expected stored form is consistent.         *)
EXTENDS Seal
VARIABLE x
Init == x = 0
Next == UNCHANGED x
Spec == Init /\ [][Next]_x
InvC11 == \A s \in Pairs, r \in Receivers :
             /\ AllowedC11(s, r, "none", Dec(Enc("m", s), r))
             /\ (Dec(Enc("m", s), r) = "ok-same" <=> (s.k = r.cur.k /\ {s.e, s.g} = {r.cur.e, r.cur.g}) \/ (r.prev # NoPair /\ s.k = r.prev.k /\ {s.e, s.g} = {r.prev.e, r.prev.g}))
\* a different shared secret or a different key id never decrypts
InvBinding == \A s \in Pairs, r \in Receivers :
                 ((s.k # r.cur.k \/ Secret(s) # Secret(r.cur)) /\ (r.prev = NoPair \/ s.k # r.prev.k \/ Secret(s) # Secret(r.prev)))
                    => Dec(Enc("m", s), r) = "error"
InvC12Shape == \A t \in RecTypes : \A p \in Presents(t) :
                 AllowedC12(t, p, TRUE, [f \in SecretFields(t) |-> IF f \in p THEN "sealed" ELSE "absent"], "equal", "error", "error", "error")
=============================================================================
