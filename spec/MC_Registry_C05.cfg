SPECIFICATION Spec
CONSTANTS
  CertKeys = {"k1","k2","k3"}
  EncKeys = {"e1","e2"}
  Nonces = {"n1"}
  Tokens = {}
  AppStates = {}
  NodeIds = {"N1","N2"}
  Enabled = {"Authorize","Remove","Nid","KeyKind"}
  MaxGen = 4
  CfgSW = FALSE
  CfgNidl = TRUE
  CfgSO = FALSE
  CfgRmErr = FALSE
INVARIANTS InvC05
CHECK_DEADLOCK FALSE
