SPECIFICATION Spec
CONSTANTS
  Ids = {"a","b"}
  Vals = {"v1","v2"}
  RemoveAbsentErr = TRUE
  StoreOnce = TRUE
  MaxOps = 5
INVARIANTS InvC19
CHECK_DEADLOCK FALSE
