------------------------------ MODULE MuxTrace ------------------------------
(* Validation of histories recorded from the real MultiplexingListener.       *)
(* TMode = "monitor": the property predicates of C18 evaluated on the events  *)
(*   themselves (per-connection accounting, accept-after-close, hang, panic). *)
(*   Deterministic; each failing instance yields VIOL lines.                  *)
(* TMode = "explain": every history must be a behaviour of Mux.tla: logged    *)
(*   events are bound to the call / return / connection-close actions and TLC *)
(*   infers the internal steps between them.  The highest line index reached  *)
(*   is kept in TLC register 1; an unexplained instance is model drift.       *)
EXTENDS Mux, Json, TLCExt

CONSTANTS TraceFile, TMode

TraceLog == ndJsonDeserialize(TraceFile)

VARIABLES l,
          mret, mcls, ming, mcloseRet, mafter, mviol   \* monitor state

tvars == <<vars, l, mret, mcls, ming, mcloseRet, mafter, mviol>>
mvars == <<mret, mcls, ming, mcloseRet, mafter, mviol>>

MInit == /\ mret = [i \in Ing |-> 0] /\ mcls = [i \in Ing |-> 0] /\ ming = {} /\ mcloseRet = FALSE
         /\ mafter = [a \in Acc |-> FALSE] /\ mviol = {}

MReset == /\ mret' = [i \in Ing |-> 0] /\ mcls' = [i \in Ing |-> 0] /\ ming' = {} /\ mcloseRet' = FALSE
          /\ mafter' = [a \in Acc |-> FALSE] /\ mviol' = {}

ModelReset ==
  /\ ipc' = [i \in Ing |-> "idle"] /\ apc' = [a \in Acc |-> "idle"] /\ aconn' = [a \in Acc |-> 0]
  /\ ares' = [a \in Acc |-> 0] /\ aafter' = [a \in Acc |-> FALSE]
  /\ cpc' = [k \in Cls |-> "idle"] /\ dpc' = "off" /\ dconn' = 0
  /\ ctxDone' = FALSE /\ closed' = FALSE /\ chanClosed' = FALSE /\ readers' = 0 /\ wOwner' = 0
  /\ xpc' = "idle"
  /\ returned' = [i \in Ing |-> 0] /\ cclosed' = [i \in Ing |-> 0] /\ closeRet' = FALSE

TInit == Init /\ l = 1 /\ MInit /\ TLCSet(1, 1)

E == TraceLog[l]
Is(ev) == l <= Len(TraceLog) /\ E.ev = ev

(* ------------------------------ monitor ------------------------------ *)
MonStep ==
  /\ l <= Len(TraceLog)
  /\ LET e == E IN
     CASE e.ev = "Reset" -> MReset
       [] e.ev = "IngressStart" -> ming' = ming \cup {e.id} /\ UNCHANGED <<mret, mcls, mcloseRet, mafter, mviol>>
       [] e.ev = "AcceptStart" -> mafter' = [mafter EXCEPT ![e.id] = mcloseRet] /\ UNCHANGED <<mret, mcls, ming, mcloseRet, mviol>>
       [] e.ev = "AcceptEnd" ->
            LET bad == (IF e.res > 0 /\ (e.res \notin ming) THEN {"returned-connection-never-ingressed"} ELSE {}) \cup
                       (IF e.res > 0 /\ e.res \in Ing /\ mret[e.res] >= 1 THEN {"connection-returned-twice"} ELSE {}) \cup
                       (IF e.res > 0 /\ e.res \in Ing /\ mcls[e.res] >= 1 THEN {"connection-returned-and-closed"} ELSE {}) \cup
                       (IF mafter[e.id] /\ e.res # -1 THEN {"accept-after-close-not-closed"} ELSE {}) \cup
                       (IF e.res = -3 THEN {"accept-returned-neither-connection-nor-closed"} ELSE {})
            IN /\ mret' = IF e.res > 0 /\ e.res \in Ing THEN [mret EXCEPT ![e.res] = @ + 1] ELSE mret
               /\ mviol' = mviol \cup bad
               /\ \A b \in bad : PrintT(<<"VIOL", "C18", b, e.tr, e.i>>)
               /\ UNCHANGED <<mcls, ming, mcloseRet, mafter>>
       [] e.ev = "ConnClosed" ->
            LET bad == IF e.id \in Ing /\ mret[e.id] >= 1 THEN {"connection-returned-and-closed"} ELSE {}
            IN /\ mcls' = [mcls EXCEPT ![e.id] = @ + 1] /\ mviol' = mviol \cup bad
               /\ \A b \in bad : PrintT(<<"VIOL", "C18", b, e.tr, e.i>>)
               /\ UNCHANGED <<mret, ming, mcloseRet, mafter>>
       [] e.ev = "CloseEnd" -> mcloseRet' = TRUE /\ UNCHANGED <<mret, mcls, ming, mafter, mviol>>
       [] e.ev = "End" ->
            LET lost == {i \in ming : mret[i] = 0 /\ mcls[i] = 0} IN
              /\ (lost # {} => PrintT(<<"VIOL", "C18", "connection-neither-returned-nor-closed", e.tr, e.i>>))
              /\ PrintT(<<"NOTE", "instance", e.tr, Cardinality(ming), Cardinality(lost)>>)
              /\ UNCHANGED mvars
       [] e.ev = "Hung" -> PrintT(<<"VIOL", "C18", "operation-did-not-return", e.tr, e.i>>) /\ UNCHANGED mvars
       [] e.ev = "Panic" -> PrintT(<<"VIOL", "C18", "panic", e.tr, e.i>>) /\ UNCHANGED mvars
       [] OTHER -> UNCHANGED mvars
  /\ l' = l + 1
  /\ UNCHANGED vars

(* ------------------------------ explain ------------------------------ *)
\* events bound to model actions
Ev ==
  \/ (Is("Reset") /\ ModelReset)
  \/ (Is("IngressStart") /\ IStart(E.id))
  \/ (Is("IngressEnd") /\ IReturn(E.id))
  \/ (Is("AcceptStart") /\ AStart(E.id))
  \/ (Is("AcceptEnd") /\ ares[E.id] = E.res /\ AReturn(E.id))
  \/ (Is("CloseStart") /\ CStart(E.id))
  \/ (Is("CloseEnd") /\ CReturn(E.id))
  \/ (Is("CancelStart") /\ XStart)
  \/ (Is("CancelEnd") /\ XReturn)
  \/ (Is("ConnClosed") /\ (ICloseConn(E.id) \/ (\E a \in Acc : aconn[a] = E.id /\ ACloseConn(a)) \/ (dconn = E.id /\ DCloseConn)))
  \/ (Is("End") /\ Settled /\ (\A i \in Ing : ipc[i] = "done" => returned[i] + cclosed[i] = 1) /\ UNCHANGED vars)

Silent ==
  \/ \E i \in Ing : IRLock(i) \/ IChk(i) \/ IUnlock(i)
  \/ \E a \in Acc : ASelCtx(a) \/ ASelClosed(a) \/ AChk(a) \/ (\E i \in Ing : ARecv(a, i))
  \/ \E k \in Cls : CDrain(k) \/ CAnnounce(k) \/ CCrit(k)
  \/ (\E i \in Ing : DRecv(i)) \/ DExit \/ XDo

ExplStep == \/ (Ev /\ l' = l + 1 /\ UNCHANGED mvars)
            \/ (l <= Len(TraceLog) /\ ~Is("Reset") /\ Silent /\ UNCHANGED <<l, mvars>>)

TNext == IF TMode = "monitor" THEN (MonStep \/ (l = Len(TraceLog) + 1 /\ PrintT(<<"DONE", Len(TraceLog), 0, 0, 0, 0>>) /\ l' = l + 1 /\ UNCHANGED <<vars, mvars>>))
         ELSE ExplStep

TSpec == TInit /\ [][TNext]_tvars

\* high-water mark of consumed lines (explain mode)
HighWater == IF l > TLCGet(1) THEN TLCSet(1, l) ELSE TRUE
Report == PrintT(<<"HIGHWATER", TLCGet(1), Len(TraceLog)>>)

\* model invariants on the explaining behaviour
ExplInv == TMode = "explain" => (ReturnedAtMostOnce /\ NeverBoth /\ NoSendOnClosed)
=============================================================================
