SPECIFICATION Spec
CONSTANTS
  K = 2
  M = 2
  C = 2
  WithCancel = TRUE
INVARIANTS TypeOK ReturnedAtMostOnce NeverBoth NoSendOnClosed Accounted AcceptAfterClose
PROPERTIES CloseReturns IngressReturns
CHECK_DEADLOCK FALSE
