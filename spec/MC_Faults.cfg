SPECIFICATION Spec
INVARIANTS InvC13
CHECK_DEADLOCK FALSE
