-------------------------------- MODULE Mux --------------------------------
(***************************************************************************)
(* net.MultiplexingListener (net/splitlistener.go): an unbuffered channel  *)
(* of connections guarded by an RWMutex-protected `closed` flag, a context *)
(* that Close cancels (and a parent may cancel), and a drain goroutine     *)
(* spawned once that closes whatever is still sent after shutdown.         *)
(*                                                                         *)
(* One action per critical section / blocking point of the code:           *)
(*   IngressConn : RLock; if closed {conn.Close} else {incoming <- conn};  *)
(*                 RUnlock                                                 *)
(*   Accept      : select {ctx.Done -> drainConnections; ErrClosed         *)
(*                         recv -> (closed chan -> ErrClosed)              *)
(*                                 re-check ctx: done -> conn.Close;       *)
(*                                 ErrClosed | return conn}                *)
(*   Close       : drainConnections (cancel; spawn drainer once); Lock;    *)
(*                 closed = true; close(incoming) once; Unlock             *)
(*   drainer     : for in := range incoming { in.conn.Close() }            *)
(* Go's RWMutex gives a pending writer preference over new readers.        *)
(* The call / return of every operation and every conn.Close are separate  *)
(* steps so that traces recorded from outside the object (call, return,    *)
(* Close-of-connection events) can be bound to them.                       *)
(***************************************************************************)
EXTENDS Integers, Sequences, FiniteSets, TLC

CONSTANTS K,        \* ingress operations (connection i is sent by ingress i)
          M,        \* accept operations
          C,        \* close operations
          WithCancel \* whether the parent context may be cancelled

Ing == 1..K
Acc == 1..M
Cls == 1..C

VARIABLES
  ipc,        \* ingress pc: idle rl chk send cls unl ret done
  apc,        \* accept pc : idle sel chk cls ret done
  aconn,      \* connection held by an accept (0 none)
  ares,       \* accept result: 0 = none yet, -1 = ErrClosed, i = connection i
  aafter,     \* accept started after some Close had returned
  cpc,        \* close pc  : idle drain ann locked ret done
  dpc,        \* drainer pc: off loop cls exit
  dconn,      \* connection held by the drainer
  ctxDone, closed, chanClosed, readers, wOwner,
  xpc,        \* parent cancel: idle call ret done
  returned,   \* returned[i]: times connection i was returned by an accept
  cclosed,    \* cclosed[i] : times connection i was closed
  closeRet    \* some Close has returned

vars == <<ipc, apc, aconn, ares, aafter, cpc, dpc, dconn, ctxDone, closed, chanClosed, readers, wOwner,
          xpc, returned, cclosed, closeRet>>

Init ==
  /\ ipc = [i \in Ing |-> "idle"] /\ apc = [a \in Acc |-> "idle"] /\ aconn = [a \in Acc |-> 0]
  /\ ares = [a \in Acc |-> 0] /\ aafter = [a \in Acc |-> FALSE]
  /\ cpc = [k \in Cls |-> "idle"] /\ dpc = "off" /\ dconn = 0
  /\ ctxDone = FALSE /\ closed = FALSE /\ chanClosed = FALSE /\ readers = 0 /\ wOwner = 0
  /\ xpc = "idle"
  /\ returned = [i \in Ing |-> 0] /\ cclosed = [i \in Ing |-> 0] /\ closeRet = FALSE

SpawnDrainer == IF dpc = "off" THEN "loop" ELSE dpc

(* ---------------- IngressConn ---------------- *)
IStart(i) == ipc[i] = "idle" /\ ipc' = [ipc EXCEPT ![i] = "rl"]
             /\ UNCHANGED <<apc, aconn, ares, aafter, cpc, dpc, dconn, ctxDone, closed, chanClosed, readers, wOwner, xpc, returned, cclosed, closeRet>>
IRLock(i) == ipc[i] = "rl" /\ wOwner = 0 /\ readers' = readers + 1 /\ ipc' = [ipc EXCEPT ![i] = "chk"]
             /\ UNCHANGED <<apc, aconn, ares, aafter, cpc, dpc, dconn, ctxDone, closed, chanClosed, wOwner, xpc, returned, cclosed, closeRet>>
IChk(i) == ipc[i] = "chk" /\ ipc' = [ipc EXCEPT ![i] = IF closed THEN "cls" ELSE "send"]
           /\ UNCHANGED <<apc, aconn, ares, aafter, cpc, dpc, dconn, ctxDone, closed, chanClosed, readers, wOwner, xpc, returned, cclosed, closeRet>>
ICloseConn(i) == ipc[i] = "cls" /\ cclosed' = [cclosed EXCEPT ![i] = @ + 1] /\ ipc' = [ipc EXCEPT ![i] = "unl"]
                 /\ UNCHANGED <<apc, aconn, ares, aafter, cpc, dpc, dconn, ctxDone, closed, chanClosed, readers, wOwner, xpc, returned, closeRet>>
IUnlock(i) == ipc[i] = "unl" /\ readers' = readers - 1 /\ ipc' = [ipc EXCEPT ![i] = "ret"]
              /\ UNCHANGED <<apc, aconn, ares, aafter, cpc, dpc, dconn, ctxDone, closed, chanClosed, wOwner, xpc, returned, cclosed, closeRet>>
IReturn(i) == ipc[i] = "ret" /\ ipc' = [ipc EXCEPT ![i] = "done"]
              /\ UNCHANGED <<apc, aconn, ares, aafter, cpc, dpc, dconn, ctxDone, closed, chanClosed, readers, wOwner, xpc, returned, cclosed, closeRet>>

(* ---------------- Accept ---------------- *)
AStart(a) == apc[a] = "idle" /\ apc' = [apc EXCEPT ![a] = "sel"] /\ aafter' = [aafter EXCEPT ![a] = closeRet]
             /\ UNCHANGED <<ipc, aconn, ares, cpc, dpc, dconn, ctxDone, closed, chanClosed, readers, wOwner, xpc, returned, cclosed, closeRet>>
\* select picks ctx.Done: drainConnections, then ErrClosed
ASelCtx(a) == apc[a] = "sel" /\ ctxDone /\ dpc' = SpawnDrainer /\ apc' = [apc EXCEPT ![a] = "ret"] /\ ares' = [ares EXCEPT ![a] = -1]
              /\ UNCHANGED <<ipc, aconn, aafter, cpc, dconn, ctxDone, closed, chanClosed, readers, wOwner, xpc, returned, cclosed, closeRet>>
\* select picks the receive on a closed channel
ASelClosed(a) == apc[a] = "sel" /\ chanClosed /\ apc' = [apc EXCEPT ![a] = "ret"] /\ ares' = [ares EXCEPT ![a] = -1]
                 /\ UNCHANGED <<ipc, aconn, aafter, cpc, dpc, dconn, ctxDone, closed, chanClosed, readers, wOwner, xpc, returned, cclosed, closeRet>>
\* rendezvous with a blocked sender
ARecv(a, i) == apc[a] = "sel" /\ ipc[i] = "send" /\ ~chanClosed
               /\ ipc' = [ipc EXCEPT ![i] = "unl"] /\ apc' = [apc EXCEPT ![a] = "chk"] /\ aconn' = [aconn EXCEPT ![a] = i]
               /\ UNCHANGED <<ares, aafter, cpc, dpc, dconn, ctxDone, closed, chanClosed, readers, wOwner, xpc, returned, cclosed, closeRet>>
\* re-check of the context after the receive
AChk(a) == apc[a] = "chk"
           /\ (IF ctxDone THEN apc' = [apc EXCEPT ![a] = "cls"] /\ UNCHANGED ares
               ELSE apc' = [apc EXCEPT ![a] = "ret"] /\ ares' = [ares EXCEPT ![a] = aconn[a]])
           /\ UNCHANGED <<ipc, aconn, aafter, cpc, dpc, dconn, ctxDone, closed, chanClosed, readers, wOwner, xpc, returned, cclosed, closeRet>>
ACloseConn(a) == apc[a] = "cls" /\ cclosed' = [cclosed EXCEPT ![aconn[a]] = @ + 1]
                 /\ apc' = [apc EXCEPT ![a] = "ret"] /\ ares' = [ares EXCEPT ![a] = -1]
                 /\ UNCHANGED <<ipc, aconn, aafter, cpc, dpc, dconn, ctxDone, closed, chanClosed, readers, wOwner, xpc, returned, closeRet>>
AReturn(a) == apc[a] = "ret" /\ apc' = [apc EXCEPT ![a] = "done"]
              /\ returned' = (IF ares[a] > 0 THEN [returned EXCEPT ![ares[a]] = @ + 1] ELSE returned)
              /\ UNCHANGED <<ipc, aconn, ares, aafter, cpc, dpc, dconn, ctxDone, closed, chanClosed, readers, wOwner, xpc, cclosed, closeRet>>

(* ---------------- Close ---------------- *)
CStart(k) == cpc[k] = "idle" /\ cpc' = [cpc EXCEPT ![k] = "drain"]
             /\ UNCHANGED <<ipc, apc, aconn, ares, aafter, dpc, dconn, ctxDone, closed, chanClosed, readers, wOwner, xpc, returned, cclosed, closeRet>>
CDrain(k) == cpc[k] = "drain" /\ ctxDone' = TRUE /\ dpc' = SpawnDrainer /\ cpc' = [cpc EXCEPT ![k] = "ann"]
             /\ UNCHANGED <<ipc, apc, aconn, ares, aafter, dconn, closed, chanClosed, readers, wOwner, xpc, returned, cclosed, closeRet>>
\* Lock(): take the writer mutex and announce; new readers now wait
CAnnounce(k) == cpc[k] = "ann" /\ wOwner = 0 /\ wOwner' = k /\ cpc' = [cpc EXCEPT ![k] = "wait"]
                /\ UNCHANGED <<ipc, apc, aconn, ares, aafter, dpc, dconn, ctxDone, closed, chanClosed, readers, xpc, returned, cclosed, closeRet>>
\* readers drained: critical section closed = true; close(incoming) once; Unlock
CCrit(k) == cpc[k] = "wait" /\ readers = 0 /\ closed' = TRUE /\ chanClosed' = TRUE /\ wOwner' = 0 /\ cpc' = [cpc EXCEPT ![k] = "ret"]
            /\ UNCHANGED <<ipc, apc, aconn, ares, aafter, dpc, dconn, ctxDone, readers, xpc, returned, cclosed, closeRet>>
CReturn(k) == cpc[k] = "ret" /\ cpc' = [cpc EXCEPT ![k] = "done"] /\ closeRet' = TRUE
              /\ UNCHANGED <<ipc, apc, aconn, ares, aafter, dpc, dconn, ctxDone, closed, chanClosed, readers, wOwner, xpc, returned, cclosed>>

(* ---------------- parent cancel, drainer ---------------- *)
\* cancel() of the parent context: call, effect, return are separate steps (a recorder logs call and return)
XStart == WithCancel /\ xpc = "idle" /\ xpc' = "call"
          /\ UNCHANGED <<ipc, apc, aconn, ares, aafter, cpc, dpc, dconn, ctxDone, closed, chanClosed, readers, wOwner, returned, cclosed, closeRet>>
XDo == xpc = "call" /\ xpc' = "ret" /\ ctxDone' = TRUE
       /\ UNCHANGED <<ipc, apc, aconn, ares, aafter, cpc, dpc, dconn, closed, chanClosed, readers, wOwner, returned, cclosed, closeRet>>
XReturn == xpc = "ret" /\ xpc' = "done"
           /\ UNCHANGED <<ipc, apc, aconn, ares, aafter, cpc, dpc, dconn, ctxDone, closed, chanClosed, readers, wOwner, returned, cclosed, closeRet>>
DRecv(i) == dpc = "loop" /\ ipc[i] = "send" /\ ~chanClosed /\ ipc' = [ipc EXCEPT ![i] = "unl"] /\ dpc' = "cls" /\ dconn' = i
            /\ UNCHANGED <<apc, aconn, ares, aafter, cpc, ctxDone, closed, chanClosed, readers, wOwner, xpc, returned, cclosed, closeRet>>
DCloseConn == dpc = "cls" /\ cclosed' = [cclosed EXCEPT ![dconn] = @ + 1] /\ dpc' = "loop" /\ dconn' = 0
              /\ UNCHANGED <<ipc, apc, aconn, ares, aafter, cpc, ctxDone, closed, chanClosed, readers, wOwner, xpc, returned, closeRet>>
DExit == dpc = "loop" /\ chanClosed /\ dpc' = "exit"
         /\ UNCHANGED <<ipc, apc, aconn, ares, aafter, cpc, dconn, ctxDone, closed, chanClosed, readers, wOwner, xpc, returned, cclosed, closeRet>>

Internal ==
  \/ \E i \in Ing : IRLock(i) \/ IChk(i) \/ ICloseConn(i) \/ IUnlock(i)
  \/ \E a \in Acc : ASelCtx(a) \/ ASelClosed(a) \/ AChk(a) \/ ACloseConn(a) \/ (\E i \in Ing : ARecv(a, i))
  \/ \E k \in Cls : CDrain(k) \/ CAnnounce(k) \/ CCrit(k)
  \/ (\E i \in Ing : DRecv(i)) \/ DCloseConn \/ DExit
  \/ XDo

CallsAndReturns ==
  \/ \E i \in Ing : IStart(i) \/ IReturn(i)
  \/ \E a \in Acc : AStart(a) \/ AReturn(a)
  \/ \E k \in Cls : CStart(k) \/ CReturn(k)
  \/ XStart \/ XReturn

Next == Internal \/ CallsAndReturns

Fairness == WF_vars(Internal) /\ WF_vars(\E i \in Ing : IReturn(i)) /\ WF_vars(\E a \in Acc : AReturn(a)) /\ WF_vars(\E k \in Cls : CReturn(k))

Spec == Init /\ [][Next]_vars /\ Fairness

(* ---------------- properties (C18) ---------------- *)
ReturnedAtMostOnce == \A i \in Ing : returned[i] <= 1
NeverBoth == \A i \in Ing : ~(returned[i] >= 1 /\ cclosed[i] >= 1)
\* nothing can panic: a send never meets a closed channel (senders hold the read lock while Close needs the write lock)
NoSendOnClosed == \A i \in Ing : ~(ipc[i] = "send" /\ chanClosed)
Settled == /\ \A i \in Ing : ipc[i] \in {"idle", "done"}
           /\ \A a \in Acc : apc[a] \in {"idle", "done"}
           /\ \A k \in Cls : cpc[k] \in {"idle", "done"}
           /\ dpc \in {"off", "loop", "exit"} /\ xpc \in {"idle", "done"}
Accounted == Settled => \A i \in Ing : ipc[i] = "done" => returned[i] + cclosed[i] = 1
AcceptAfterClose == \A a \in Acc : (apc[a] \in {"ret", "done"} /\ aafter[a]) => ares[a] = -1
TypeOK == readers \in 0..K /\ wOwner \in 0..C

\* Close always returns, even with senders blocked on it
CloseReturns == \A k \in Cls : (cpc[k] # "idle") ~> (cpc[k] = "done")
\* once a Close has been called every started ingress returns as well (no stranded sender)
IngressReturns == \A i \in Ing : ((ipc[i] # "idle") /\ (\E k \in Cls : cpc[k] # "idle")) ~> (ipc[i] = "done")
=============================================================================
