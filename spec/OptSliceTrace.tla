--------------------------- MODULE OptSliceTrace ---------------------------
(* Judges recorded two-connection schedules and concurrent mixes on the real *)
(* listener (C15): every connection's outcome, reported metadata and stored  *)
(* record must be what they are when the connection is handled alone, and    *)
(* the application's option slice must not be written (refinement of         *)
(* NoSharedWrite / Isolation of OptSlice.tla).                               *)
EXTENDS Integers, Sequences, FiniteSets, TLC, Json
CONSTANTS TraceFile, Props
TraceLog == ndJsonDeserialize(TraceFile)
VARIABLES l, cnt
vars == <<l, cnt>>
\* "poll": a node that is not authorised (yet) asks for its credentials: refused; "tokenSame": THE SAME node identity then
\* (or meanwhile) presents an activation token: enrolled - two requests of one key are still two requests
Want(kind) == IF kind = "auth" THEN "auth" ELSE IF kind \in {"token", "tokenSame"} THEN "enrolled" ELSE IF kind \in {"baseA", "baseB"} THEN "base" ELSE "rejected"
Viols(e) ==
  LET o == e.obs IN
  (IF e.res = "panic" THEN {"panic"} ELSE {}) \cup
  (IF e.res = "hung" THEN {"handshake-or-enrolment-never-returns"} ELSE {}) \cup
  (IF e.op.op = "Schedule" /\ e.res # "panic" THEN
     (IF o.aOutcome # Want(e.op.a) \/ o.bOutcome # Want(e.op.b) THEN {"outcome-differs-from-handled-alone"} ELSE {})
   ELSE {}) \cup
  (IF e.op.op = "Mix" /\ e.res # "panic" /\ o.failures > 0 THEN {"outcome-differs-from-handled-alone"} ELSE {}) \cup
  (IF e.res # "panic" /\ ~(o.aOwnState /\ o.bOwnState) THEN {"state-or-record-of-another-connection"} ELSE {}) \cup
  (IF e.res # "panic" /\ ~(o.aOwnProtos /\ o.bOwnProtos) THEN {"protocol-list-of-another-connection"} ELSE {}) \cup
  (IF e.res # "panic" /\ ~o.sentinel THEN {"application-option-slice-written"} ELSE {})
Init == l = 1 /\ cnt = [lines |-> 0, nontrivial |-> 0, drift |-> 0, viol |-> 0, unc |-> 0]
Step ==
  /\ l <= Len(TraceLog)
  /\ LET e == TraceLog[l] vs == IF e.res = "setup-error" THEN {} ELSE Viols(e)
         drift == e.op.op = "Schedule" /\ e.res # "setup-error" /\ ~e.obs.parked IN
       /\ \A v \in vs : PrintT(<<"VIOL", "C15", v, e.tr, e.i>>)
       /\ (drift => PrintT(<<"DRIFT", e.tr, e.i, e.op.op, "parked", "not-parked", FALSE>>))
       /\ cnt' = [lines |-> cnt.lines + 1, nontrivial |-> cnt.nontrivial + (IF e.obs.parked \/ e.op.op = "Mix" THEN 1 ELSE 0),
                  drift |-> cnt.drift + (IF drift THEN 1 ELSE 0), viol |-> cnt.viol + Cardinality(vs), unc |-> 0]
       /\ l' = l + 1
Finish == l = Len(TraceLog) + 1 /\ PrintT(<<"DONE", cnt.lines, cnt.nontrivial, cnt.drift, cnt.viol, cnt.unc>>) /\ l' = l + 1 /\ UNCHANGED cnt
Next == Step \/ Finish
Spec == Init /\ [][Next]_vars
=============================================================================
