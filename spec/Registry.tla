---------------------------- MODULE Registry ----------------------------
(***************************************************************************)
(* Server registry of hashicorp/nodeenrollment: node records, activation   *)
(* tokens and the registration wrapper, mutated by operator actions and by *)
(* remote requests.  Implementation-shaped: every public call is one       *)
(* action whose effect is a pure operator (Apply), written in the order of *)
(* the code's dispatch, so that the same operators serve                   *)
(*   - exhaustive model checking (MC_Registry_*.cfg),                      *)
(*   - behaviour generation (RegistryGen.tla) and                          *)
(*   - trace validation of the real library (RegistryTrace.tla).           *)
(* Cryptography is symbolic: keys, nonces, tokens and wrappers are atoms   *)
(* (strings, so that JSON traces map 1:1).                                 *)
(*                                                                         *)
(* Code anchors: registration/register_node_led.go (FetchNodeCredentials,  *)
(* validateFetchRequestCommon), registration/authorize.go,                 *)
(* registration/register_server_led.go, rotation/node.go, tls/server.go.   *)
(***************************************************************************)
EXTENDS Integers, Sequences, FiniteSets, TLC

CONSTANTS CertKeys,    \* certificate keys, e.g. {"k1","k2","k3"}
          EncKeys,     \* node encryption keys {"e1","e2"}
          Nonces,      \* 32-byte nonces {"n1","n2"}
          Tokens,      \* activation tokens {"t1","t2"}
          AppStates,   \* application states {"s1","s2"}
          NodeIds      \* node ids {"N1"}

NONE == "none"
TokNonces == Tokens \cup {"tf", "tg"}   \* tf: well-formed token never issued; tg: not a token at all
AllNonces == Nonces \cup TokNonces
Lives == {"default", "tiny", "mid", "zero", "neg"}      \* maximum token lifetime passed to the fetch (zero / negative: every token has expired)
StateOrNone == AppStates \cup {NONE}

\* kt: type of the certificate public key held by the record ("ed" unless the stored record was edited);
\* srv = 0: the record holds no server encryption key (incomplete record written directly to storage)
AbsentNode == [present |-> FALSE, nonce |-> NONE, enc |-> NONE, state |-> NONE,
               srv |-> 0, nid |-> NONE, prevk |-> NONE, prevsrv |-> 0, prevenc |-> NONE, kt |-> "ed"]

(* token life-cycle: unborn -> fresh -> old -> gone; "broken": stored record
   whose sealed creation time no longer opens (transplanted) *)
UnbornTok == [st |-> "unborn", state |-> NONE]

InitState(cfg) ==
  [nodes  |-> [k \in CertKeys |-> AbsentNode],
   tokens |-> [t \in Tokens |-> UnbornTok],
   regw   |-> NONE,
   gen    |-> 0,
   cfg    |-> cfg]      \* cfg = [sw |-> storage wrapper in use, nidl |-> storage supports lookup by node id,
                        \*        so |-> store-once back end (a node record is never overwritten),
                        \*        rmerr |-> removing an absent entry is an error (file back end; not in memory)]

Present(st) == {k \in CertKeys : st.nodes[k].present}
Live(tok) == tok.st \in {"fresh", "old"}
Expired(tok, life) == life \in {"tiny", "zero", "neg"} \/ (life = "mid" /\ tok.st = "old")

Out(res, st) == [res |-> res, st |-> st]

(***************************************************************************)
(* authorizeNodeCommon: (over)writes the record of key k                   *)
(***************************************************************************)
NewRecord(st, e, n, s) ==
  [present |-> TRUE, nonce |-> n, enc |-> e, state |-> s, srv |-> st.gen + 1,
   nid |-> NONE, prevk |-> NONE, prevsrv |-> 0, prevenc |-> NONE, kt |-> "ed"]

\* On a store-once back end an existing record is returned instead of being overwritten (duplicate-record path);
\* the server key generated for the refused record is still drawn (gen advances only when a record is written).
AuthorizeCommon(st, k, e, n, s) ==
  IF st.cfg.so /\ st.nodes[k].present THEN st
  ELSE [st EXCEPT !.nodes[k] = NewRecord(st, e, n, s), !.gen = st.gen + 1]
\* the record the flow continues with after authorizeNodeCommon
RecordAfter(st, k) == st.nodes[k]

(***************************************************************************)
(* Operator actions                                                        *)
(***************************************************************************)
DoAuthorize(st, o) ==   \* registration.AuthorizeNode on a well-signed, fresh request
  IF o.n \notin Nonces THEN Out("error", st)              \* not a 32-byte nonce
  ELSE IF st.nodes[o.k].present THEN Out("error", st)     \* existing node
  ELSE Out("ok", AuthorizeCommon(st, o.k, o.e, o.n, o.s))

DoCreateToken(st, o) ==
  IF st.tokens[o.t].st # "unborn" THEN Out("skip", st)
  ELSE Out("ok", [st EXCEPT !.tokens[o.t] = [st |-> "fresh", state |-> o.s]])

DoAgeAll(st) ==
  Out("ok", [st EXCEPT !.tokens = [t \in Tokens |->
      IF st.tokens[t].st = "fresh" THEN [st.tokens[t] EXCEPT !.st = "old"] ELSE st.tokens[t]]])

DoRemove(st, o) == Out("ok", [st EXCEPT !.nodes[o.k] = AbsentNode])

DoSetRegw(st, o) == Out("ok", [st EXCEPT !.regw = o.w])

(* storage-level edits by the application / an attacker with storage access *)
DoSetNid(st, o) ==
  IF st.nodes[o.k].present THEN Out("ok", [st EXCEPT !.nodes[o.k].nid = o.nid]) ELSE Out("skip", st)

DoSetPrev(st, o) ==   \* NodeInformation.SetPreviousEncryptionKey(new := k, old := from), then store
  IF st.nodes[o.k].present /\ st.nodes[o.from].present /\ o.k # o.from
  THEN Out("ok", [st EXCEPT !.nodes[o.k].prevk = o.from,
                            !.nodes[o.k].prevsrv = st.nodes[o.from].srv,
                            !.nodes[o.k].prevenc = st.nodes[o.from].enc])
  ELSE Out("skip", st)

DoSetKeyKind(st, o) ==   \* the stored record's certificate key is replaced by a non-Ed25519 key
  IF st.nodes[o.k].present THEN Out("ok", [st EXCEPT !.nodes[o.k].kt = "other"]) ELSE Out("skip", st)

DoStripSrv(st, o) ==     \* the stored record loses its server encryption key
  IF st.nodes[o.k].present /\ st.nodes[o.k].srv # 0 THEN Out("ok", [st EXCEPT !.nodes[o.k].srv = 0]) ELSE Out("skip", st)

DoTamperTime(st, o) ==   \* rewrite the clear creation_time of the stored token to "now"
  IF ~Live(st.tokens[o.t]) THEN Out("skip", st)
  ELSE IF st.cfg.sw THEN Out("ok", st)                         \* sealed copy governs: no effect
  ELSE Out("ok", st)                                           \* unsealed marshalled copy governs as well (clear field is overwritten on load)

DoTransplant(st, o) ==   \* copy the sealed creation time of token t2 into the record of t
  IF ~(Live(st.tokens[o.t]) /\ Live(st.tokens[o.t2]) /\ o.t # o.t2) THEN Out("skip", st)
  ELSE IF st.cfg.sw THEN Out("ok", [st EXCEPT !.tokens[o.t].st = "broken"])
  ELSE Out("ok", [st EXCEPT !.tokens[o.t].st = st.tokens[o.t2].st])   \* no wrapper: plain bytes, the time moves

DoTransplantWhole(st, o) ==   \* the whole stored record of token t2 is written under the storage key of t
  IF ~(Live(st.tokens[o.t]) /\ Live(st.tokens[o.t2]) /\ o.t # o.t2) THEN Out("skip", st)
  ELSE IF st.cfg.sw THEN Out("ok", [st EXCEPT !.tokens[o.t] = [st |-> "broken", state |-> st.tokens[o.t2].state]])   \* the seal is bound to the id looked up
  ELSE Out("skip", st)                                                               \* nothing is claimed without a storage wrapper

(***************************************************************************)
(* Fetch: registration.FetchNodeCredentials for a WELL-SIGNED, FRESH       *)
(* request r = [k, e, n, life, ww, wk, wn, rby, rwith, rk, rn]              *)
(*   ww/wk/wn : wrapped registration info sealed with wrapper ww for       *)
(*              (key wk, nonce wn), NONE when absent                       *)
(*   rby      : claimed re-wrapping key id, NONE when absent               *)
(*   rwith    : record whose shared key really sealed the re-wrapped blob  *)
(*              (a present cert key, or "rand")                            *)
(***************************************************************************)
\* does the record of cert key `by` open a message sealed with the node-side key of record `with`
OpensWith(st, by, with) ==
  /\ by \in CertKeys /\ st.nodes[by].present
  /\ with \in CertKeys /\ st.nodes[with].present /\ st.nodes[with].srv # 0 /\ st.nodes[with].kt = "ed"
  /\ \/ with = by
     \/ /\ st.nodes[by].prevk = with
        /\ st.nodes[by].prevsrv = st.nodes[with].srv
        /\ st.nodes[by].prevenc = st.nodes[with].enc

HasWrapped(r) == r.ww # NONE
HasRewrapped(r) == r.rby # NONE

DoFetch(st, r) ==
  IF HasWrapped(r) \/ HasRewrapped(r) THEN
     LET opened == IF HasRewrapped(r) THEN OpensWith(st, r.rby, r.rwith)
                   ELSE st.regw # NONE /\ r.ww = st.regw
         ik == IF HasRewrapped(r) THEN r.rk ELSE r.wk
         in == IF HasRewrapped(r) THEN r.rn ELSE r.wn
     IN IF ~opened \/ in # r.n \/ ik # r.k THEN Out("error", st)
        \* (observed, not required by any property: on a store-once back end WITH a storage wrapper the duplicate-record
        \* path reloads the kept record without the wrapper and fails)
        ELSE IF st.cfg.so /\ st.cfg.sw /\ st.nodes[r.k].present THEN Out("error", st)
        ELSE LET st1 == AuthorizeCommon(st, r.k, r.e, r.n, NONE) rec == st1.nodes[r.k] IN
             \* final comparisons of the fetch against the record in use (differs from the request only on a
             \* store-once back end that kept an older record)
             IF rec.nonce = r.n /\ rec.enc = r.e THEN Out("issued", st1) ELSE Out("error", st1)
  ELSE IF r.n \in Nonces THEN
     IF ~st.nodes[r.k].present THEN Out("empty", st)
     ELSE IF st.nodes[r.k].nonce = r.n /\ st.nodes[r.k].enc = r.e /\ st.nodes[r.k].kt = "ed" /\ st.nodes[r.k].srv # 0
          THEN Out("issued", st)
     ELSE Out("error", st)
  ELSE \* token-shaped (or garbage) nonce
     IF r.n \notin Tokens THEN Out("error", st)
     ELSE LET tok == st.tokens[r.n] IN
       IF ~Live(tok) THEN Out("error", st)                      \* unknown / used / broken
       ELSE IF Expired(tok, r.life) THEN Out("error", st)
       ELSE LET st1 == [st EXCEPT !.tokens[r.n] = [st |-> "gone", state |-> NONE]] IN
            IF st.nodes[r.k].present THEN Out("error", st1)     \* token consumed, existing node refused
            \* skipst: the caller asked that nothing be stored on its behalf: the token is used up all the same, credentials
            \* are handed out, no record is written
            ELSE IF "skipst" \in DOMAIN r /\ r.skipst THEN Out("issued", st1)
            ELSE Out("issued", AuthorizeCommon(st1, r.k, r.e, r.n, tok.state))

(***************************************************************************)
(* Two OVERLAPPING token fetches with the same token t for different keys: *)
(* the token fetch is two critical sections - load + checks, then remove + *)
(* authorise.  Fetch A has loaded the token and is parked before its       *)
(* removal while fetch B runs to completion; then A goes on.  What stops A *)
(* is only the removal failing for an absent entry (cfg.rmerr).            *)
(***************************************************************************)
TokFetch(k, e, t) == [op |-> "Fetch", k |-> k, e |-> e, n |-> t, life |-> "default", selfinfo |-> FALSE, ww |-> NONE, wk |-> NONE,
                      wn |-> NONE, rby |-> NONE, rwith |-> NONE, rk |-> NONE, rn |-> NONE]
DoFetchRace(st, o) ==
  IF o.ka = o.kb \/ o.t \notin Tokens \/ ~Live(st.tokens[o.t]) \/ st.nodes[o.ka].present \/ st.nodes[o.kb].present THEN Out("skip", st)
  ELSE LET rb == DoFetch(st, TokFetch(o.kb, o.e, o.t)) IN
       IF st.cfg.rmerr THEN Out("onlyB", rb.st)
       ELSE Out("both", AuthorizeCommon(rb.st, o.ka, o.e, o.t, st.tokens[o.t].state))

(***************************************************************************)
(* C03: request validation shared by authorize and fetch.                  *)
(* v = [api, mut, nb, na, sknb, skna] on an integer grid with now = 0      *)
(***************************************************************************)
Muts == {"none", "flipBundle", "flipSig", "truncBundle", "truncSig", "signedByOther",
         "noBundle", "noSig", "noCertKey", "badCertType", "noNonce", "noEncKey", "badEncType",
         "noiseBundle", "noiseSig",
         \* structure-aware mutations of a validly signed bundle, and signed bundles whose window fields are unusable
         \* (a missing not-before or out-of-range nanoseconds still denote an instant for the code and are not
         \* claimed invalid here; a missing not-after is the epoch, i.e. long expired)
         "appendField22", "appendUnknownField", "noNotAfter",
         \* key-type fields left at their zero value (unspecified) rather than set to a wrong type
         "noCertType", "noEncType",
         \* signed by the key the bundle names as the node's PREVIOUS certificate key instead of by its own
         "signedByNamedPrev"}
InWindow(v) == (v.nb + v.sknb <= 0) /\ (0 <= v.na + v.skna)
ValidReq(v) == v.mut = "none" /\ InWindow(v)

DoSubmit(st, v) ==   \* the underlying request is a node-led one for an unregistered key
  IF ~ValidReq(v) THEN Out("error", st)
  ELSE IF v.api = "authorize" THEN DoAuthorize(st, [k |-> v.k, e |-> v.e, n |-> v.n, s |-> NONE])
  ELSE DoFetch(st, [k |-> v.k, e |-> v.e, n |-> v.n, life |-> "default", ww |-> NONE, wk |-> NONE,
                    wn |-> NONE, rby |-> NONE, rwith |-> NONE, rk |-> NONE, rn |-> NONE])

(***************************************************************************)
(* C05: tls.GenerateServerCertificates                                     *)
(* q = [k, nid, order, nsig, hasState, ssig, skip]                          *)
(***************************************************************************)
Verified(st, q, c) == st.nodes[c].kt = "ed" /\ q.nsig = c /\ (q.hasState => q.ssig = c)

LookupSeq(st, q) ==   \* records examined, in order
  IF q.nid # NONE /\ st.cfg.nidl
  THEN SelectSeq(q.order, LAMBDA c : st.nodes[c].present /\ st.nodes[c].nid = q.nid)
  ELSE IF q.k \in CertKeys /\ st.nodes[q.k].present THEN <<q.k>> ELSE <<>>

GenOK(st, q) == \E i \in 1..Len(LookupSeq(st, q)) : Verified(st, q, LookupSeq(st, q)[i])

DoGenCerts(st, q) ==
  IF q.skip THEN Out(IF q.hasState THEN "certs+state" ELSE "certs", st)
  ELSE IF q.nsig = NONE THEN Out("error", st)
  ELSE IF GenOK(st, q) THEN Out(IF q.hasState THEN "certs+state" ELSE "certs", st)
  ELSE Out("error", st)

(***************************************************************************)
(* C10: rotation.RotateNodeCredentials                                     *)
(* q = [k, nid, order, src, which, k2, e2, n2, ostate]                      *)
(*   src/which: the payload is sealed with the node-side key of record src *)
(*              ("cur") or with the key that record src remembers as its   *)
(*              previous one ("prev"); src = "rand": unrelated key;        *)
(*              "gone": with the key shared with the record src held       *)
(*              BEFORE it was removed or replaced - the driver logs that   *)
(*              key's generation and encryption key as q.gsrv / q.genc     *)
(*              (0 / none when src never had another record)               *)
(***************************************************************************)
KeyTriple(st, src, which) ==
  IF which = "gone" THEN <<0, NONE, NONE>>       \* (see KeyTripleQ)
  ELSE IF src \notin CertKeys \/ ~st.nodes[src].present THEN <<0, NONE, NONE>>
  ELSE IF which = "cur" THEN (IF st.nodes[src].kt = "ed" THEN <<st.nodes[src].srv, st.nodes[src].enc, src>> ELSE <<0, NONE, NONE>>)
  ELSE IF st.nodes[src].prevk = NONE THEN <<0, NONE, NONE>>
  ELSE <<st.nodes[src].prevsrv, st.nodes[src].prevenc, st.nodes[src].prevk>>

RecOpens(st, c, tr) ==
  /\ tr[1] # 0
  /\ \/ (st.nodes[c].kt = "ed" /\ tr = <<st.nodes[c].srv, st.nodes[c].enc, c>>)
     \/ (st.nodes[c].prevk # NONE /\ tr = <<st.nodes[c].prevsrv, st.nodes[c].prevenc, st.nodes[c].prevk>>)

RotLookup(st, q) ==
  IF q.nid # NONE /\ st.cfg.nidl
  THEN SelectSeq(q.order, LAMBDA c : st.nodes[c].present /\ st.nodes[c].nid = q.nid)
  ELSE IF st.nodes[q.k].present THEN <<q.k>> ELSE <<>>

KeyTripleQ(st, q) == IF q.which = "gone" /\ "gsrv" \in DOMAIN q THEN <<q.gsrv, q.genc, q.src>> ELSE KeyTriple(st, q.src, q.which)
RotOpeners(st, q) ==
  LET ls == RotLookup(st, q) tr == KeyTripleQ(st, q)
  IN SelectSeq(ls, LAMBDA c : RecOpens(st, c, tr))

\* res "rotated" carries the record that authenticated the request
\* q.lf: a transient storage fault hits the lookup of the NEW key's record (the "already registered?" check): refused
DoRotate(st, q) ==
  LET os == RotOpeners(st, q) IN
  \* q.win # "ok": the inner signed request lies outside its validity window widened by the CONFIGURED skews: refused
  IF Len(os) = 0 \/ q.lf \/ q.win # "ok" THEN [res |-> "error", st |-> st, by |-> NONE]
  ELSE LET c == os[1] IN
    IF q.n2 \notin Nonces \/ st.nodes[q.k2].present THEN [res |-> "error", st |-> st, by |-> c]
    ELSE IF st.nodes[c].srv = 0
         \* authenticated through the recorded previous key of an incomplete record: the new key is
         \* registered, then sealing the reply fails (an honoured request that errors late)
         THEN [res |-> "error", st |-> AuthorizeCommon(st, q.k2, q.e2, q.n2, st.nodes[c].state), by |-> c]
    ELSE [res |-> "rotated", st |-> AuthorizeCommon(st, q.k2, q.e2, q.n2, st.nodes[c].state), by |-> c]

(***************************************************************************)
(* Dispatcher                                                              *)
(***************************************************************************)
Apply(st, o) ==
  CASE o.op = "Authorize"   -> DoAuthorize(st, o)
    [] o.op = "CreateToken" -> DoCreateToken(st, o)
    [] o.op = "AgeAll"      -> DoAgeAll(st)
    [] o.op = "Remove"      -> DoRemove(st, o)
    [] o.op = "SetRegw"     -> DoSetRegw(st, o)
    [] o.op = "SetNid"      -> DoSetNid(st, o)
    [] o.op = "SetPrev"     -> DoSetPrev(st, o)
    [] o.op = "SetKeyKind"  -> DoSetKeyKind(st, o)
    \* the record of k is edited to name the certificate key of `from` as its PREVIOUS certificate key (what authorising a
    \* request that carries one stores).  Nothing in the registry's behaviour depends on that field.
    [] o.op = "SetPrevCert" -> IF st.nodes[o.k].present THEN Out("ok", st) ELSE Out("skip", st)
    [] o.op = "StripSrv"    -> DoStripSrv(st, o)
    [] o.op = "TamperTime"  -> DoTamperTime(st, o)
    [] o.op = "Transplant"  -> DoTransplant(st, o)
    [] o.op = "TransplantWhole" -> DoTransplantWhole(st, o)
    [] o.op = "Fetch"       -> DoFetch(st, o)
    [] o.op = "FetchRace"   -> DoFetchRace(st, o)
    [] o.op = "Submit"      -> DoSubmit(st, o)
    [] o.op = "CreateRequest" -> IF o.flow = "wrap" THEN Out("ok", st) ELSE Out("ok", [st EXCEPT !.gen = st.gen + 1])   \* an honest node-built request for a key outside the pool, authorised at once
    [] o.op = "GenCerts"    -> DoGenCerts(st, o)
    [] o.op = "Rotate"      -> LET r == DoRotate(st, o) IN Out(r.res, r.st)

(***************************************************************************)
(* Operation universes                                                     *)
(***************************************************************************)
NoWrap == [ww |-> NONE, wk |-> NONE, wn |-> NONE]
NoRewrap == [rby |-> NONE, rwith |-> NONE, rk |-> NONE, rn |-> NONE]

\* (optional field `back`, like `skipst`: the request's validity window began three days ago - built early or backdated,
\* still well inside its window; must not matter, in particular not for the age of a token)
\* selfinfo: the signed bundle itself carries a pre-populated (self-asserted) registration-flow info naming the
\* request's own key and nonce - a field the server is meant to fill in only after unsealing; it must not matter
FetchCore == [op : {"Fetch"}, k : CertKeys, e : EncKeys, n : AllNonces, life : Lives, selfinfo : BOOLEAN]
\* "SW": the info is sealed with the server's STORAGE wrapper (which is not a registration wrapper, whatever else is configured)
\* wk / wn = "absent": the sealed info lacks the certificate key / the nonce altogether (a blob sealed with the right
\* wrapper that binds nothing): it names no key and no nonce, so it matches none
PartialWraps == {w \in [ww : {"W1"}, wk : CertKeys \cup {"absent"}, wn : Nonces \cup {"absent"}] : w.wk = "absent" \/ w.wn = "absent"}
Wraps == {NoWrap} \cup [ww : {"W1", "W2", "SW"}, wk : CertKeys, wn : AllNonces \ {"tf", "tg"}] \cup PartialWraps
Rewraps == {NoRewrap} \cup [rby : CertKeys, rwith : CertKeys \cup {"rand"}, rk : CertKeys, rn : AllNonces \ {"tf", "tg"}]

Merge(a, b) == [x \in (DOMAIN a) \cup (DOMAIN b) |-> IF x \in DOMAIN a THEN a[x] ELSE b[x]]

\* a request carries wrapped info, re-wrapped info, neither, or (sampled: precedence only) both
WrapCombos == ({NoWrap} \X Rewraps) \cup (Wraps \X {NoRewrap})
              \cup ({w \in Wraps : w.ww = "W1"} \X {rw \in Rewraps : rw.rwith \in {"rand", rw.rby}})
FetchReqs == {Merge(Merge(c, wc[1]), wc[2]) : c \in FetchCore, wc \in WrapCombos}

\* requests whose life class is irrelevant are normalised to "default" to keep the universe small
FetchReqsN == {r \in FetchReqs : (r.n \notin Tokens => r.life = "default") /\ (r.selfinfo => r.life = "default")}

AuthorizeOps == [op : {"Authorize"}, k : CertKeys, e : EncKeys, n : Nonces \cup {"tf"}, s : StateOrNone]
TokenOps == [op : {"CreateToken"}, t : Tokens, s : StateOrNone]
RemoveOps == [op : {"Remove"}, k : CertKeys]
RegwOps == [op : {"SetRegw"}, w : {NONE, "W1"}]
AgeOps == {[op |-> "AgeAll"]}
NidOps == [op : {"SetNid"}, k : CertKeys, nid : NodeIds]
PrevOps == [op : {"SetPrev"}, k : CertKeys, from : CertKeys]
KeyKindOps == [op : {"SetKeyKind"}, k : CertKeys]
StripOps == [op : {"StripSrv"}, k : CertKeys]
TamperOps == [op : {"TamperTime"}, t : Tokens] \cup [op : {"Transplant", "TransplantWhole"}, t : Tokens, t2 : Tokens]

Perms(S) == {s \in [1..Cardinality(S) -> S] : \A i, j \in 1..Cardinality(S) : i # j => s[i] # s[j]}

GenCertOpsAll == [op : {"GenCerts"}, k : CertKeys \cup {"kx"}, nid : NodeIds \cup {NONE}, order : Perms(CertKeys),
               nsig : CertKeys \cup {NONE, "kx"}, hasState : BOOLEAN, ssig : CertKeys \cup {NONE, "kx"},
               skip : BOOLEAN]

RotateOpsAll == [op : {"Rotate"}, k : CertKeys, nid : NodeIds \cup {NONE}, order : Perms(CertKeys),
              src : CertKeys \cup {"rand"}, which : {"cur", "prev"},
              k2 : CertKeys, e2 : EncKeys, n2 : Nonces \cup Tokens,
              ostate : StateOrNone,     \* a WithState option the caller happens to pass: must not matter
              lf : BOOLEAN, win : {"ok"}]

IdOrder == CHOOSE p \in Perms(CertKeys) : TRUE
\* the delivery order only matters on the node-ID path: other requests are normalised to one order
GenCertOps == {q \in GenCertOpsAll : q.nid = NONE => q.order = IdOrder}
RotateOps == {q \in RotateOpsAll : q.nid = NONE => q.order = IdOrder}

\* C03 universe: validity window on a minute grid around now = 0, skew configurations, mutation classes.
\* Grid points on a window edge are excluded (real time moves while the call runs).
GridNB == {-2000, -30, -3, 2, 40}
GridNA == {-40, -2, 3, 30, 2000}
SkewNB == {0, -5, -60}
SkewNA == {0, 5, 60}
\* prime: the genuine (unmutated) request was presented once before (an ordinary poll); must not matter
SubmitOps == {v \in [op : {"Submit"}, api : {"authorize", "fetch"}, mut : Muts, nb : GridNB, na : GridNA,
                      sknb : SkewNB, skna : SkewNA, k : CertKeys, e : EncKeys, n : Nonces, prime : BOOLEAN] :
                 v.nb < v.na /\ v.nb + v.sknb # 0 /\ v.na + v.skna # 0}

(***************************************************************************)
(* Property predicates (exactly what the listed properties state)          *)
(***************************************************************************)
\* ---- C01 ----
CaseA(st, r) == st.nodes[r.k].present /\ st.nodes[r.k].nonce = r.n /\ st.nodes[r.k].enc = r.e /\ st.nodes[r.k].kt = "ed"
CaseB(st, r) == r.n \in Tokens /\ Live(st.tokens[r.n]) /\ ~Expired(st.tokens[r.n], r.life)
CaseC(st, r) ==
  \/ (HasWrapped(r) /\ st.regw # NONE /\ r.ww = st.regw /\ r.wn = r.n /\ r.wk = r.k)
  \/ (HasRewrapped(r) /\ OpensWith(st, r.rby, r.rwith) /\ r.rn = r.n /\ r.rk = r.k)
Authorised(st, r) == CaseA(st, r) \/ CaseB(st, r) \/ CaseC(st, r)

\* pre/post are registry states (or logged projections with the same shape)
AllowedC01(pre, r, res, post) ==
  /\ (res = "issued" => Authorised(pre, r))
  /\ (~Authorised(pre, r) => res \in {"empty", "error"} /\ Present(post) \subseteq Present(pre))

\* ---- C06 ---- (single steps; the at-most-one-node clause needs the history variable enr)
AllowedC06(pre, r, res, post) ==
  r.n \in TokNonces =>
    /\ (~HasWrapped(r) /\ ~HasRewrapped(r) /\
        (r.n \notin Tokens \/ ~Live(pre.tokens[r.n]) \/ Expired(pre.tokens[r.n], r.life))
          => res # "issued" /\ Present(post) \subseteq Present(pre))
    /\ (~HasWrapped(r) /\ ~HasRewrapped(r) /\ pre.nodes[r.k].present => res # "issued")
    /\ (r.n \in Tokens /\ res = "issued" /\ ~HasWrapped(r) /\ ~HasRewrapped(r) => ~Live(post.tokens[r.n]))

\* ---- C03 ----
AllowedC03(v, res, writes) == ~ValidReq(v) => res = "error" /\ writes = 0

\* ---- C05 ----
AllowedC05(pre, q, res) ==
  /\ (res \in {"certs", "certs+state"} => q.skip \/ GenOK(pre, q))
  /\ (~q.skip /\ ~GenOK(pre, q) => res = "error")

\* ---- C10 ----
RotHonoured(pre, q) == Len(RotOpeners(pre, q)) > 0
RotOpenerSet(pre, q) == {RotOpeners(pre, q)[i] : i \in 1..Len(RotOpeners(pre, q))}
\* requests the property says must be refused: not sealed with a key of a stored record of the identified
\* node, an activation-token nonce inside, or a replay (the new key is already registered)
RotMustRefuse(pre, q) == ~RotHonoured(pre, q) \/ q.n2 \notin Nonces \/ pre.nodes[q.k2].present
AllowedC10(pre, q, res, post) ==
  /\ (res = "rotated" => ~RotMustRefuse(pre, q))
  /\ (RotMustRefuse(pre, q) => res # "rotated" /\ post.nodes = pre.nodes)
  \* whenever the new key gets registered, it carries the state of a record that authenticated the request
  /\ (post.nodes[q.k2].present /\ ~pre.nodes[q.k2].present =>
        \E c \in RotOpenerSet(pre, q) : post.nodes[q.k2].state = pre.nodes[c].state)
  /\ (\A c \in CertKeys : c # q.k2 => post.nodes[c] = pre.nodes[c])

=============================================================================
