-------------------------------- MODULE Store --------------------------------
(***************************************************************************)
(* The storage back ends (storage/inmem, storage/file, storage/testing)    *)
(* as a typed key-value map: m[<<type, id>>] is the last value stored or   *)
(* Absent.  Back-end parameters:                                           *)
(*   RemoveAbsentErr : removing an absent entry is an error (file)         *)
(*   StoreOnce       : a node-information record is never overwritten      *)
(* Types: "ni" NodeInformation, "nc" NodeCredentials, "rc" RootCertificates,*)
(* "tk" ServerLedActivationToken (not listable), "bad" an unknown message  *)
(* type, "nil" a nil message.                                              *)
(***************************************************************************)
EXTENDS Integers, Sequences, FiniteSets, TLC

CONSTANTS Ids, Vals, RemoveAbsentErr, StoreOnce

Known == {"ni", "nc", "rc", "tk"}
Listable == {"ni", "nc", "rc"}
AllTypes == Known \cup {"bad", "nil"}
Absent == "absent"

InitMap == [k \in Known \X Ids |-> Absent]

\* result: [res, val, ids, m]
R(res, val, ids, m) == [res |-> res, val |-> val, ids |-> ids, m |-> m]

DoStore(m, t, id, v) ==
  IF t \notin Known \/ id = "" THEN R("error", Absent, {}, m)
  ELSE IF StoreOnce /\ t = "ni" /\ m[<<t, id>>] # Absent THEN R("dup", Absent, {}, m)
  ELSE R("ok", Absent, {}, [m EXCEPT ![<<t, id>>] = v])
DoLoad(m, t, id) ==
  IF t \notin Known \/ id = "" THEN R("error", Absent, {}, m)
  ELSE IF m[<<t, id>>] = Absent THEN R("notfound", Absent, {}, m)
  ELSE R("ok", m[<<t, id>>], {}, m)
DoRemove(m, t, id) ==
  IF t \notin Known \/ id = "" THEN R("error", Absent, {}, m)
  ELSE IF m[<<t, id>>] = Absent THEN R(IF RemoveAbsentErr THEN "error" ELSE "ok", Absent, {}, m)
  ELSE R("ok", Absent, {}, [m EXCEPT ![<<t, id>>] = Absent])
DoList(m, t) ==
  IF t \notin Listable THEN R("error", Absent, {}, m)
  ELSE R("ok", Absent, {id \in Ids : m[<<t, id>>] # Absent}, m)

Apply(m, o) ==
  CASE o.op = "Store" -> DoStore(m, o.t, o.id, o.v)
    [] o.op = "Load" -> DoLoad(m, o.t, o.id)
    [] o.op = "Remove" -> DoRemove(m, o.t, o.id)
    [] o.op = "List" -> DoList(m, o.t)
    \* "Burst": rounds of a FRESH in-memory storage on which several clients perform the first store of a type at the same
    \* moment, then every stored id is loaded and listed; by linearisability every acknowledged store is there: "ok"
    [] o.op = "Burst" -> R("ok", Absent, {}, m)
    \* "Churn": rounds in which a store and a remove of one entry overlap while readers list; when all have returned, the
    \* listing and a load agree about the entry (the map is in the state left by whichever write was linearised last): "ok"
    [] o.op = "Churn" -> R("ok", Absent, {}, m)

IdsE == Ids \cup {""}
Ops == [op : {"Store"}, t : AllTypes, id : IdsE, v : Vals] \cup [op : {"Load", "Remove"}, t : AllTypes, id : IdsE, v : {Absent}]
       \cup [op : {"List"}, t : AllTypes, id : {""}, v : {Absent}]

(* C19 as the property states it, independent of Apply's case order *)
AllowedC19(m, o, res, val, ids, m2) ==
  /\ (o.t \notin Known => res = "error" /\ m2 = m)                               \* nil and unknown types are refused
  /\ (o.op = "Load" /\ o.t \in Known /\ o.id # "" =>
        IF m[<<o.t, o.id>>] = Absent THEN res = "notfound" ELSE (res = "ok" /\ val = m[<<o.t, o.id>>]))
  /\ (o.op = "List" /\ o.t \in Listable => res = "ok" /\ ids = {id \in Ids : m[<<o.t, id>>] # Absent})
  /\ (o.op = "Store" /\ o.t \in Known /\ o.id # "" =>
        IF StoreOnce /\ o.t = "ni" /\ m[<<o.t, o.id>>] # Absent THEN (res # "ok" /\ m2 = m)
        ELSE (res = "ok" /\ m2 = [m EXCEPT ![<<o.t, o.id>>] = o.v]))                \* other types with the same id are untouched
  /\ (o.op = "Remove" /\ o.t \in Known /\ o.id # "" => m2 = [m EXCEPT ![<<o.t, o.id>>] = Absent])
  /\ (o.op \in {"Load", "List"} => m2 = m)
  /\ (o.op \in {"Burst", "Churn"} => res = "ok")                                              \* no acknowledged store may be missing
=============================================================================
