----------------------------- MODULE StoreTrace -----------------------------
(* TMode "seq": each recorded call of a back end is judged against the map   *)
(*   model (pre/post projections logged by the driver).                      *)
(* TMode "lin": concurrent histories of the in-memory back end (invoke /     *)
(*   return events); TLC searches for a linearisation: every operation takes *)
(*   effect atomically between its invocation and its return and returns     *)
(*   what the map model returns at that point.  A history with no            *)
(*   linearisation violates C19.                                             *)
EXTENDS Store, Json, TLCExt
CONSTANTS TraceFile, Props, TMode, Clients
TraceLog == ndJsonDeserialize(TraceFile)
VARIABLES l, cnt, m, pend
vars == <<l, cnt, m, pend>>

Key(t, id) == t \o "_" \o id
ToMap(p) == [k \in Known \X Ids |-> p[Key(k[1], k[2])]]
SeqToSet(s) == {s[i] : i \in 1..Len(s)}

Init == l = 1 /\ cnt = [lines |-> 0, nontrivial |-> 0, drift |-> 0, viol |-> 0, unc |-> 0] /\ m = InitMap
        /\ pend = [c \in Clients |-> [st |-> "idle"]] /\ TLCSet(1, 1)

SeqStep ==
  /\ l <= Len(TraceLog)
  /\ LET e == TraceLog[l]
         pre == ToMap(e.pre)
         post == ToMap(e.post)
         ok == AllowedC19(pre, e.op, e.res, e.val, SeqToSet(e.ids), post)
         pred == Apply(pre, e.op)
         drift == pred.res # e.res \/ pred.m # post
     IN /\ (~ok => PrintT(<<"VIOL", "C19", "call-result-or-effect-differs-from-map-model", e.tr, e.i>>))
        /\ (e.res = "panic" => PrintT(<<"VIOL", "C19", "panic", e.tr, e.i>>))
        /\ (drift => PrintT(<<"DRIFT", e.tr, e.i, e.op.op, pred.res, e.res, pred.m = post>>))
        /\ cnt' = [lines |-> cnt.lines + 1, nontrivial |-> cnt.nontrivial + (IF e.op.t \in Known THEN 1 ELSE 0),
                   drift |-> cnt.drift + (IF drift THEN 1 ELSE 0), viol |-> cnt.viol + (IF ok THEN 0 ELSE 1), unc |-> 0]
        /\ l' = l + 1 /\ UNCHANGED <<m, pend>>

(* ---- linearisation search ---- *)
E == TraceLog[l]
LinReset == l <= Len(TraceLog) /\ E.ev = "Reset" /\ m' = InitMap /\ pend' = [c \in Clients |-> [st |-> "idle"]] /\ l' = l + 1 /\ UNCHANGED cnt
LinInv == l <= Len(TraceLog) /\ E.ev = "Inv" /\ pend[E.c].st = "idle"
          /\ pend' = [pend EXCEPT ![E.c] = [st |-> "called", op |-> E.op]] /\ l' = l + 1 /\ UNCHANGED <<m, cnt>>
\* the operation takes effect
LinDo(c) == pend[c].st = "called" /\ LET r == Apply(m, pend[c].op) IN
              /\ m' = r.m
              /\ pend' = [pend EXCEPT ![c] = [st |-> "done", op |-> pend[c].op, res |-> r.res, val |-> r.val, ids |-> r.ids]]
              /\ UNCHANGED <<l, cnt>>
LinRet == l <= Len(TraceLog) /\ E.ev = "Ret" /\ pend[E.c].st = "done"
          /\ pend[E.c].res = E.res /\ pend[E.c].val = E.val /\ pend[E.c].ids = SeqToSet(E.ids)
          /\ pend' = [pend EXCEPT ![E.c] = [st |-> "idle"]] /\ l' = l + 1 /\ UNCHANGED <<m, cnt>>
LinStep == LinReset \/ LinInv \/ LinRet \/ (l <= Len(TraceLog) /\ \E c \in Clients : LinDo(c))

Finish == l = Len(TraceLog) + 1 /\ TMode = "seq" /\ PrintT(<<"DONE", cnt.lines, cnt.nontrivial, cnt.drift, cnt.viol, cnt.unc>>) /\ l' = l + 1 /\ UNCHANGED <<cnt, m, pend>>
Next == IF TMode = "seq" THEN (SeqStep \/ Finish) ELSE LinStep
Spec == Init /\ [][Next]_vars
HighWater == IF l > TLCGet(1) THEN TLCSet(1, l) ELSE TRUE
Report == PrintT(<<"HIGHWATER", TLCGet(1), Len(TraceLog)>>)
=============================================================================
