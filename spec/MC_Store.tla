------------------------------ MODULE MC_Store ------------------------------
EXTENDS Store
CONSTANT MaxOps
VARIABLES m, n
Init == m = InitMap /\ n = 0
Next == n < MaxOps /\ \E o \in Ops : m' = Apply(m, o).m /\ m' # m /\ n' = n + 1
Spec == Init /\ [][Next]_<<m, n>>
InvC19 == \A o \in Ops : LET r == Apply(m, o) IN AllowedC19(m, o, r.res, r.val, r.ids, r.m)
=============================================================================
