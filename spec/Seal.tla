-------------------------------- MODULE Seal --------------------------------
(***************************************************************************)
(* (1) Message encryption (encryption.go): Enc/Dec between key sources.    *)
(*     A key source derives (shared secret, key id) from an X25519 key     *)
(*     agreement and the certificate key id; it may remember a previous    *)
(*     pair.  Dec tries the current pair, then the previous one.           *)
(* (2) Storage sealing (types/*.go Store/Load with a storage wrapper):     *)
(*     which fields of the four record types are handed to storage sealed, *)
(*     with the record's own public key / id as associated data.           *)
(* Symbolic cryptography: a secret is the unordered pair {node enc key,    *)
(* server enc key}; a sealed field opens only with the same wrapper and    *)
(* the same associated data.                                               *)
(***************************************************************************)
EXTENDS Integers, Sequences, FiniteSets, TLC

CONSTANTS NodeKeys, ServerKeys, KeyIds    \* the key id "k0" stands for the EMPTY key id (no associated data on that side)

NONE == "none"
\* one half of a key source
Pair(e, g, k) == [e |-> e, g |-> g, k |-> k]
NoPair == Pair(NONE, NONE, NONE)
Pairs == [e : NodeKeys, g : ServerKeys, k : KeyIds]
Secret(p) == {p.e, p.g}                         \* both sides of one agreement derive the same secret
Matches(ct, p) == p # NoPair /\ Secret(p) = ct.secret /\ p.k = ct.id

Enc(m, p) == [secret |-> Secret(p), id |-> p.k, m |-> m]
\* receiver r = [cur, prev]; tamper in {"none", "flip", "trunc", "random", "short"}
Dec(ct, r) == IF Matches(ct, r.cur) \/ Matches(ct, r.prev) THEN "ok-same" ELSE "error"

AllowedC11(sender, r, tamper, res) ==
  LET ct == Enc("m", sender) IN
  /\ res \in {"ok-same", "error"}                                       \* never another plaintext, never a crash
  /\ (tamper = "none" => res = Dec(ct, r))                              \* exact original iff secret and key id agree (current or previous)
Receivers == [cur : Pairs, prev : Pairs \cup {NoPair}]

(* ---------------- storage sealing ---------------- *)
RecTypes == {"roots", "nodeinfo", "nodecreds", "token"}
\* secret-bearing fields per record type, and whether the field is optional
SecretFields(t) ==
  CASE t = "roots" -> {"cur.priv", "next.priv"}
    [] t = "nodeinfo" -> {"srv.priv", "prev.priv"}
    [] t = "nodecreds" -> {"cert.priv", "enc.priv", "nonce", "prev.priv"}
    [] t = "token" -> {"creation_time"}
Optional(t) == CASE t = "nodeinfo" -> {"prev.priv"} [] t = "nodecreds" -> {"nonce", "prev.priv"} [] OTHER -> {}

\* stored form of a field: "absent" | "clear" | "sealed"
\* C12: with a wrapper, every present secret field is sealed; round trip with the same wrapper; no load otherwise; no transplant
AllowedC12(t, present, wrapper, form, loadSame, loadNone, loadOther, transplant) ==
  wrapper =>
    /\ \A f \in SecretFields(t) : (f \in present => form[f] = "sealed") /\ (f \notin present => form[f] = "absent")
    /\ loadSame = "equal"
    /\ loadNone = "error" /\ loadOther = "error"
    /\ transplant \in {"error", "n/a"}
Presents(t) == {(SecretFields(t) \ Optional(t)) \cup o : o \in SUBSET Optional(t)}
=============================================================================
