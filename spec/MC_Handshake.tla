---------------------------- MODULE MC_Handshake ----------------------------
(* Every history of enrol / remove / reinitialise-roots (bounded), and in    *)
(* every reachable state every client of the capability product, judged by  *)
(* the C02 predicate.                                                        *)
EXTENDS Handshake

CONSTANTS CfgNidl, CfgBase

VARIABLES st
vars == <<st>>

Ops == [op : {"Enroll"}, k : CertKeys] \cup [op : {"Remove"}, k : CertKeys] \cup {[op |-> "Reinit"]}
       \cup {[op |-> "WaitOverlap"], [op |-> "RotateWait"], [op |-> "ExpireWait"]}

Init == st = InitState([nidl |-> CfgNidl, base |-> CfgBase])
Next == \E o \in Ops : LET out == Apply(st, o) IN out.res # "skip" /\ out.st # st /\ st' = out.st
Spec == Init /\ [][Next]_vars

InvC02 == \A c \in Clients : AllowedC02(st, c, DoConnect(st, c).res)
\* the spec itself never lets a peer-supplied field waive a check: skip / cn / pref do not enlarge the accepted set
InvNoWaiver == \A c \in AuthClients : DoConnect(st, c).res = "auth" =>
                  DoConnect(st, [c EXCEPT !.skip = FALSE, !.cn = FALSE]).res = "auth"
\* anti-vacuity: some client does get authenticated in some state
NeverAuth == \A c \in Clients : DoConnect(st, c).res # "auth"
=============================================================================
