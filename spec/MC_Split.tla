------------------------------ MODULE MC_Split ------------------------------
EXTENDS Split
VARIABLE cfg
Init == cfg \in Configs
Next == \E n \in cfg.reg : cfg' = Lookup(cfg, n)
Spec == Init /\ [][Next]_cfg
\* every route the code-shaped function may take is allowed, and routing is total
InvC17 == \A c \in Clients : /\ Routes(cfg, c) # {}
                             /\ \A r \in Routes(cfg, c) : AllowedC17(cfg, c, r, r \in cfg.native, c.kind \in NodeKinds)
InvAuthOnly == \A c \in Clients : c.kind \notin NodeKinds => Routes(cfg, c) \subseteq {UNAUTH, "none"}
=============================================================================
