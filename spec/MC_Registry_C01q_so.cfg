SPECIFICATION Spec
CONSTANTS
  CertKeys = {"k1","k2"}
  EncKeys = {"e1","e2"}
  Nonces = {"n1","n2"}
  Tokens = {"t1"}
  AppStates = {}
  NodeIds = {"N1"}
  Enabled = {"Authorize","Token","Remove","Regw","Fetch"}
  MaxGen = 2
  CfgSW = FALSE
  CfgNidl = FALSE
  CfgSO = TRUE
  CfgRmErr = FALSE
INVARIANTS InvC01
CHECK_DEADLOCK FALSE
