--------------------------- MODULE HandshakeTrace ---------------------------
(* Trace validation for the handshake family: C02 (who gets authenticated),  *)
(* C14 (hostile input is a per-connection, temporary failure and the         *)
(* listener keeps serving honest nodes), C16 (connection metadata).          *)
EXTENDS Handshake, Json

CONSTANTS TraceFile, Props

TraceLog == ndJsonDeserialize(TraceFile)

VARIABLES l, cnt
vars == <<l, cnt>>

ToSt(p, c) == [rec |-> [k \in CertKeys |-> p.rec[k]], cert |-> [k \in CertKeys |-> p.cert[k]],
               prevrec |-> [k \in CertKeys |-> p.prevrec[k]], hasprev |-> [k \in CertKeys |-> p.hasprev[k]],
               prevcert |-> [k \in CertKeys |-> p.prevcert[k]], phase |-> p.phase, cfg |-> [nidl |-> c.nidl, base |-> c.base]]
SeqToSet(s) == {s[i] : i \in 1..Len(s)}

\* expected metadata: the offered list minus the certificate-preference entries, in order
Expected(o) == LET idx == {i \in 1..Len(o.offered) : ~o.offeredPref[i]}
                   f[i \in 0..Len(o.offered)] == IF i = 0 THEN <<>> ELSE IF i \in idx THEN Append(f[i - 1], o.offered[i]) ELSE f[i - 1]
               IN f[Len(o.offered)]

Viols(e, pre) ==
  (IF "C02" \in Props /\ e.op.op = "Connect" THEN
     (IF e.res = "auth" /\ ~C02Auth(pre, e.op) THEN {<<"C02", "authenticated-without-required-proof">>} ELSE {}) \cup
     (IF e.op.kind = "fetch" /\ SeqToSet(e.obs.kinds) \cap {"auth", "base", "fetchconn", "othertype"} # {} THEN {<<"C02", "fetch-handshake-yielded-connection">>} ELSE {}) \cup
     (IF e.op.kind = "mixedFA" /\ e.res = "auth" THEN {<<"C02", "fetch-handshake-yielded-connection">>} ELSE {}) \cup
     (IF e.op.kind \in {"auth", "mixedAF", "mixedFA"} /\ e.res \in {"base", "fetchconn", "othertype"} THEN {<<"C02", "library-client-returned-as-other-connection">>} ELSE {})
   ELSE {}) \cup
  (IF "C02" \in Props /\ e.op.op = "Dial" /\ e.res = "auth" /\ ~(pre.rec[e.op.k] /\ (pre.cert[e.op.k] = "pending" \/ Connectable(pre, pre.cert[e.op.k])))
     THEN {<<"C02", "unregistered-or-stale-node-authenticated">>} ELSE {}) \cup
  (IF "C02" \in Props /\ e.op.op = "DialPrev" /\ e.res = "auth" /\ ~(pre.prevrec[e.op.k] /\ Connectable(pre, pre.prevcert[e.op.k]))
     THEN {<<"C02", "previous-credentials-authenticated-without-stored-record">>} ELSE {}) \cup
  (IF "C07" \in Props /\ e.op.op = "DialPrev" /\ pre.prevrec[e.op.k] /\ Connectable(pre, pre.prevcert[e.op.k]) /\ e.res # "auth"
     THEN {<<"C07", "registered-node-cannot-connect-to-its-own-server">>} ELSE {}) \cup
  (IF "C07" \in Props /\ e.op.op = "RotateNode" /\ pre.rec[e.op.k] /\ e.res # "ok"
     THEN {<<"C07", "credential-rotation-of-registered-node-fails">>} ELSE {}) \cup
  (IF "C07" \in Props /\ e.op.op \in {"Rogue", "Dial"} THEN
     (IF e.op.op = "Rogue" /\ e.res = "conn" THEN {<<"C07", "connected-to-a-peer-without-trusted-chain-or-fresh-nonce">>} ELSE {}) \cup
     (IF e.op.op = "Dial" /\ pre.cert[e.op.k] = "pending" /\ ~pre.rec[e.op.k] /\ ~(e.res = "notauth" /\ e.obs.notAuthorizedErr)
        THEN {<<"C07", "unregistered-dial-does-not-report-not-authorized">>} ELSE {}) \cup
     (IF e.op.op = "Dial" /\ pre.cert[e.op.k] = "pending" /\ ~pre.rec[e.op.k] /\ ~e.obs.credsUnchanged
        THEN {<<"C07", "unregistered-dial-changed-stored-credentials">>} ELSE {}) \cup
     (IF e.op.op = "Dial" /\ pre.rec[e.op.k] /\ (pre.cert[e.op.k] = "pending" \/ Connectable(pre, pre.cert[e.op.k])) /\ e.res # "auth"
        THEN {<<"C07", "registered-node-cannot-connect-to-its-own-server">>} ELSE {}) \cup
     (IF e.op.op = "Dial" /\ e.res = "auth" /\ ~e.obs.sameKey THEN {<<"C07", "certificate-key-changed-across-authorisation">>} ELSE {})
   ELSE {}) \cup
  (IF "C14" \in Props /\ e.op.op = "Malformed" THEN
     (IF "panic" \in SeqToSet(e.obs.kinds) THEN {<<"C14", "panic-on-remote-input">>} ELSE {}) \cup
     (IF "fatal" \in SeqToSet(e.obs.kinds) THEN {<<"C14", "non-temporary-error-for-connection-failure">>} ELSE {}) \cup
     (IF "timeout" \in SeqToSet(e.obs.kinds) THEN {<<"C14", "listener-did-not-return">>} ELSE {}) \cup
     (IF e.obs.stallTried /\ ~e.obs.stallHonestOK THEN {<<"C14", "listener-stopped-while-a-peer-stalls">>} ELSE {}) \cup
     (IF SeqToSet(e.obs.kinds) \cap {"auth", "fetchconn", "othertype"} # {} THEN {<<"C14", "malformed-input-yielded-connection">>} ELSE {})
   ELSE {}) \cup
  (IF "C14" \in Props /\ e.op.op = "Connect" THEN
     (IF "panic" \in SeqToSet(e.obs.kinds) THEN {<<"C14", "panic-on-remote-input">>} ELSE {}) \cup
     (IF "fatal" \in SeqToSet(e.obs.kinds) THEN {<<"C14", "non-temporary-error-for-connection-failure">>} ELSE {}) \cup
     (IF "timeout" \in SeqToSet(e.obs.kinds) THEN {<<"C14", "listener-did-not-return">>} ELSE {})
   ELSE {}) \cup
  (IF "C14" \in Props /\ e.op.op = "Dial" /\ pre.rec[e.op.k] /\ (Connectable(pre, pre.cert[e.op.k]) \/ pre.cert[e.op.k] = "pending") /\ e.res # "auth"
     THEN {<<"C14", "honest-node-cannot-connect">>} ELSE {}) \cup
  (IF "C16" \in Props /\ e.res = "auth" /\ e.op.op \in {"Dial", "Connect"} THEN
     (IF ~e.obs.offeredOK THEN {} ELSE
        (IF e.obs.protos # Expected(e.obs) THEN {<<"C16", "reported-protocol-list-differs-from-offered">>} ELSE {})) \cup
     (IF ~e.obs.copyOK THEN {<<"C16", "returned-list-is-not-a-copy">>} ELSE {}) \cup
     \* an empty structure carries no fields and marshals to zero bytes: absent and empty are the same state
     (IF e.op.op = "Dial" /\ e.op.stt \notin {"empty"} /\ (e.obs.statePresent # (e.op.stt \notin {"none", "overriddenNil"})) THEN {<<"C16", "client-state-presence">>} ELSE {}) \cup
     (IF e.op.op = "Dial" /\ ~e.obs.stateEq THEN {<<"C16", "client-state-differs-from-supplied">>} ELSE {}) \cup
     (IF e.op.op = "Connect" /\ (e.obs.statePresent # (e.op.stt = "ok")) THEN {<<"C16", "client-state-exposed-without-verified-signature">>} ELSE {})
   ELSE {})

NonTrivial(e) == e.op.op \in {"Connect", "Dial", "Malformed", "Rogue", "DialPrev", "RotateNode"}

Init == l = 1 /\ cnt = [lines |-> 0, nontrivial |-> 0, drift |-> 0, viol |-> 0, unc |-> 0]

Step ==
  /\ l <= Len(TraceLog)
  /\ LET e == TraceLog[l]
         pre == ToSt(e.pre, e.cfg)
         post == ToSt(e.post, e.cfg)
         judged == e.res \notin {"skip", "harness-error"} /\ ~e.unc
         vs == IF judged THEN Viols(e, pre) ELSE {}
         pred == Apply(pre, e.op)
         drift == judged /\ (pred.res # e.res \/ pred.st # post)
     IN /\ \A v \in vs : PrintT(<<"VIOL", v[1], v[2], e.tr, e.i>>)
        /\ (drift => PrintT(<<"DRIFT", e.tr, e.i, e.op.op, pred.res, e.res, pred.st = post>>))
        /\ cnt' = [lines |-> cnt.lines + 1, nontrivial |-> cnt.nontrivial + (IF judged /\ NonTrivial(e) THEN 1 ELSE 0),
                   drift |-> cnt.drift + (IF drift THEN 1 ELSE 0), viol |-> cnt.viol + Cardinality(vs), unc |-> cnt.unc + (IF e.unc THEN 1 ELSE 0)]
        /\ l' = l + 1

Finish == l = Len(TraceLog) + 1 /\ PrintT(<<"DONE", cnt.lines, cnt.nontrivial, cnt.drift, cnt.viol, cnt.unc>>) /\ l' = l + 1 /\ UNCHANGED cnt
Next == Step \/ Finish
Spec == Init /\ [][Next]_vars
=============================================================================
