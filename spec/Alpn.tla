-------------------------------- MODULE Alpn --------------------------------
(***************************************************************************)
(* tls.BreakIntoNextProtos / tls.CombineFromNextProtos (tls/common.go):    *)
(* a payload is cut into chunks of at most Budget characters; entry i is   *)
(*     prefix  digits(i) padded to two places  "-"  chunk                  *)
(* and the decoder, for every entry carrying the prefix, drops the prefix  *)
(* and the chunk number up to and including the dash, concatenating the    *)
(* rest in list order; entries without the prefix are ignored; an entry    *)
(* with the prefix but no room for a chunk number is an error.             *)
(* Characters are abstract: a payload is a sequence of naturals (so order  *)
(* is observable); the header is a sequence of digit characters and DASH.  *)
(* Decoder: "fixed3" strips exactly three characters (the code as pinned), *)
(*          "dash" strips through the first dash.                          *)
(***************************************************************************)
EXTENDS Integers, Sequences, FiniteSets, TLC

CONSTANTS Budget,    \* characters of payload per entry (240 - len(prefix) in the code)
          Radix,     \* 10 in the code; scaled down for model checking
          Decoder    \* "fixed3" | "dash"

DASH == -1
FOREIGN == -2          \* an entry that does not carry the prefix

RECURSIVE Digits(_)
Digits(n) == IF n < Radix THEN <<n>> ELSE Digits(n \div Radix) \o <<n % Radix>>
Header(i) == (IF i < Radix THEN <<0>> ELSE <<>>) \o Digits(i) \o <<DASH>>     \* %02d-

Min(a, b) == IF a < b THEN a ELSE b
NumChunks(n) == (n + Budget - 1) \div Budget
Chunk(v, i) == SubSeq(v, i * Budget + 1, Min((i + 1) * Budget, Len(v)))
\* entry = [pfx, body]; body = header \o chunk
Break(v) == [i \in 1..NumChunks(Len(v)) |-> [pfx |-> TRUE, body |-> Header(i - 1) \o Chunk(v, i - 1)]]

RECURSIVE DropThroughDash(_)
DropThroughDash(s) == IF s = <<>> THEN <<>> ELSE IF Head(s) = DASH THEN Tail(s) ELSE DropThroughDash(Tail(s))
HasDash(s) == \E i \in 1..Len(s) : s[i] = DASH

Strip(body) == IF Decoder = "fixed3" THEN SubSeq(body, 4, Len(body)) ELSE DropThroughDash(body)
Malformed(body) == IF Decoder = "fixed3" THEN Len(body) < 3 ELSE ~HasDash(body)

RECURSIVE Combine(_)
\* result: [ok, v]
Combine(es) ==
  IF es = <<>> THEN [ok |-> TRUE, v |-> <<>>]
  ELSE LET r == Combine(Tail(es)) e == Head(es) IN
       IF ~e.pfx THEN r
       ELSE IF Malformed(e.body) THEN [ok |-> FALSE, v |-> <<>>]
       ELSE [ok |-> r.ok, v |-> Strip(e.body) \o r.v]

Payload(n) == [i \in 1..n |-> i]
RoundTrip(n) == LET r == Combine(Break(Payload(n))) IN r.ok /\ r.v = Payload(n)

\* interleave a foreign entry at position p (0..count)
Foreign == [pfx |-> FALSE, body |-> <<FOREIGN>>]
InsertAt(es, p) == SubSeq(es, 1, p) \o <<Foreign>> \o SubSeq(es, p + 1, Len(es))
RoundTripForeign(n, p) == LET r == Combine(InsertAt(Break(Payload(n)), p)) IN r.ok /\ r.v = Payload(n)

\* arithmetic facts the real functions are checked against (real constants: Radix = 10)
EntryLen(prefixLen, n, i) == prefixLen + Len(Header(i)) + Len(Chunk(Payload(n), i))
=============================================================================
