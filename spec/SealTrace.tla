----------------------------- MODULE SealTrace -----------------------------
EXTENDS Seal, Json
CONSTANTS TraceFile, Props
TraceLog == ndJsonDeserialize(TraceFile)
VARIABLES l, cnt
vars == <<l, cnt>>
SeqToSet(s) == {s[i] : i \in 1..Len(s)}
P(x) == Pair(x.e, x.g, x.k)
Viols(e) ==
  (IF "C11" \in Props /\ e.op.op = "Crypt" THEN
     LET ct == Enc("m", P(e.op.s)) r == [cur |-> P(e.op.rcur), prev |-> P(e.op.rprev)] IN
     (IF e.res = "panic" THEN {<<"C11", "panic">>} ELSE {}) \cup
     (IF e.res = "ok-different" THEN {<<"C11", "decrypted-to-a-different-plaintext">>} ELSE {}) \cup
     (IF e.op.tamper = "none" /\ Dec(ct, r) = "ok-same" /\ e.res # "ok-same" THEN {<<"C11", "matching-key-did-not-decrypt">>} ELSE {}) \cup
     (IF e.op.tamper = "none" /\ Dec(ct, r) = "error" /\ e.res # "error" THEN {<<"C11", "decrypted-with-different-secret-or-key-id">>} ELSE {}) \cup
     (IF e.op.tamper # "none" /\ e.res \notin {"error", "ok-same"} THEN {<<"C11", "tampered-ciphertext-outcome">>} ELSE {}) \cup
     (IF ~e.obs.sameSecret THEN {<<"C11", "node-and-server-side-derive-different-secrets">>} ELSE {})
   ELSE {}) \cup
  (IF "C12" \in Props /\ e.op.op = "Rec" /\ e.res # "store-error" THEN
     LET t == e.op.t pres == SeqToSet(e.op.present) \cup (SecretFields(t) \ Optional(t)) IN
     (IF e.res = "panic" THEN {<<"C12", "panic">>} ELSE {}) \cup
     (IF e.res = "ok" /\ e.op.wrapper THEN
        {<<"C12", "secret-field-in-clear:" \o f>> : f \in {x \in SecretFields(t) : x \in pres /\ e.obs.form[x] # "sealed"}} \cup
        (IF e.obs.loadSame # "equal" THEN {<<"C12", "load-with-same-wrapper-differs">>} ELSE {}) \cup
        (IF e.obs.loadNone # "error" THEN {<<"C12", "load-without-wrapper-succeeds">>} ELSE {}) \cup
        (IF e.obs.loadOther # "error" THEN {<<"C12", "load-with-other-wrapper-succeeds">>} ELSE {}) \cup
        (IF e.obs.transplant = "opened" THEN {<<"C12", "transplanted-sealed-field-opens">>} ELSE {})
      ELSE {})
   ELSE {}) \cup
  (IF "C12" \in Props /\ e.op.op = "Flow" /\ e.res = "ok" THEN
     {<<"C12", "flow-hands-secret-to-storage-in-clear:" \o c>> : c \in SeqToSet(e.obs.clear)}
   ELSE {})
Init == l = 1 /\ cnt = [lines |-> 0, nontrivial |-> 0, drift |-> 0, viol |-> 0, unc |-> 0]
Step ==
  /\ l <= Len(TraceLog)
  /\ LET e == TraceLog[l] vs == Viols(e)
         drift == e.res \in {"flow-error", "encrypt-error", "store-error"} IN
       /\ \A v \in vs : PrintT(<<"VIOL", v[1], v[2], e.tr, e.i>>)
       /\ (drift => PrintT(<<"DRIFT", e.tr, e.i, e.op.op, "ok", e.res, FALSE>>))
       /\ cnt' = [lines |-> cnt.lines + 1, nontrivial |-> cnt.nontrivial + 1,
                  drift |-> cnt.drift + (IF drift THEN 1 ELSE 0), viol |-> cnt.viol + Cardinality(vs), unc |-> 0]
       /\ l' = l + 1
Finish == l = Len(TraceLog) + 1 /\ PrintT(<<"DONE", cnt.lines, cnt.nontrivial, cnt.drift, cnt.viol, cnt.unc>>) /\ l' = l + 1 /\ UNCHANGED cnt
Next == Step \/ Finish
Spec == Init /\ [][Next]_vars
=============================================================================
