----------------------------- MODULE Handshake -----------------------------
(***************************************************************************)
(* The per-connection pipeline of protocol.InterceptingListener.Accept:    *)
(*   classify the ClientHello ALPN list -> decode the carried request ->   *)
(*   GenerateServerCertificates gate (node record + nonce/state signature) *)
(*   -> TLS with client-certificate verification against the currently     *)
(*   valid roots, expected subject key, proof of possession -> outcome.    *)
(* Server state: which node records exist, and what certificates each      *)
(* identity holds (none / fresh = issued under the current root set /      *)
(* stale = issued before the roots were replaced).                         *)
(* Outcomes: "auth" (connection negotiated the node-authentication         *)
(* protocol), "base" (fell through to the application's TLS config),       *)
(* "temperr" (per-connection failure, listener keeps going).               *)
(***************************************************************************)
EXTENDS Integers, Sequences, FiniteSets, TLC

CONSTANTS CertKeys     \* identities, e.g. {"k1","k2","k3"}

NONE == "none"
Signers == CertKeys \cup {NONE, "kx"}      \* kx: a key unknown to the server

\* prevrec[k]: the record of the identity's PREVIOUS certificate key is still stored (after a node credential
\* rotation); hasprev[k]: the node still holds its previous credentials
InitState(cfg) == [rec |-> [k \in CertKeys |-> FALSE], cert |-> [k \in CertKeys |-> "none"],
                   prevrec |-> [k \in CertKeys |-> FALSE], hasprev |-> [k \in CertKeys |-> FALSE],
                   prevfresh |-> [k \in CertKeys |-> FALSE], cfg |-> cfg]
\* cfg = [nidl |-> storage supports lookup by node id, base |-> a base TLS configuration exists]

Out(res, st) == [res |-> res, st |-> st]

\* C07 (node side): a node that created credentials but is not yet authorised is "pending"
DoNewNode(st, o) == IF st.cert[o.k] # "none" THEN Out("skip", st) ELSE Out("ok", [st EXCEPT !.cert[o.k] = "pending"])
DoAuthorizePending(st, o) ==
  IF st.cert[o.k] = "pending" /\ ~st.rec[o.k] THEN Out("ok", [st EXCEPT !.rec[o.k] = TRUE]) ELSE Out("skip", st)
\* any peer that is not the node's own server: foreign roots, a certificate minted for another nonce, no nonce,
\* wrong extended key usage, self-signed, with or without mimicking the library's ALPN
RogueKinds == {"foreign", "staleNonce", "noNonce", "wrongEku", "selfSigned", "foreignNoAlpn", "foreignExtraAlpn", "nextRootNotYetValid"}
DoRogue(st, o) == IF st.cert[o.k] \notin {"fresh", "stale"} THEN Out("skip", st) ELSE Out("error", st)
\* the server rotates its roots once the node's second chain has become valid (real time): the node keeps one recognised chain
DoRotateWait(st) == Out("ok", st)
\* the operator is late: the current root expires (real time) while the next root is valid and no rotation has run;
\* the server serves from the next root; nodes keep one recognised, valid chain.  (Only honest dials and
\* enrolments are replayed after this step: the adversarial clients' chain "b0" names the expired root.)
DoExpireWait(st) == Out("ok", st)

\* node credential rotation end to end (rotation.RotateNodeCredentials authenticated by the current shared key):
\* the new key gets a record, the old record stays until the application removes it
DoRotateNode(st, o) ==
  IF st.cert[o.k] \notin {"fresh", "stale"} THEN Out("skip", st)
  ELSE IF ~st.rec[o.k] THEN Out("error", st)
  ELSE Out("ok", [st EXCEPT !.prevrec[o.k] = TRUE, !.hasprev[o.k] = TRUE, !.prevfresh[o.k] = (st.cert[o.k] = "fresh"), !.cert[o.k] = "fresh"])
DoRemovePrev(st, o) == IF st.prevrec[o.k] THEN Out("ok", [st EXCEPT !.prevrec[o.k] = FALSE]) ELSE Out("skip", st)
\* dialing with the PREVIOUS credentials
DoDialPrev(st, o) ==
  IF ~st.hasprev[o.k] THEN Out("skip", st)
  ELSE IF st.prevrec[o.k] /\ st.prevfresh[o.k] THEN Out("auth", st) ELSE Out("temperr", st)

DoEnroll(st, o) ==   \* operator-authorised enrolment of a brand-new identity
  IF st.cert[o.k] # "none" THEN Out("skip", st)
  ELSE Out("ok", [st EXCEPT !.rec[o.k] = TRUE, !.cert[o.k] = "fresh"])
DoRemove(st, o) == IF st.rec[o.k] THEN Out("ok", [st EXCEPT !.rec[o.k] = FALSE]) ELSE Out("skip", st)
DoReinit(st) == Out("ok", [st EXCEPT !.cert = [k \in CertKeys |-> IF st.cert[k] = "fresh" THEN "stale" ELSE st.cert[k]],
                                     !.prevfresh = [k \in CertKeys |-> FALSE]])

(***************************************************************************)
(* Adversarial client c = [kind, k, ck, chain, priv, nsig, stt, skip, nid, *)
(*                         pref, cn]                                       *)
(*  k    : key named in the ALPN-carried request                           *)
(*  ck   : identity whose certificate chain is presented                   *)
(*  chain: b0 (chain from the root that was current at issuance) | b1 (from *)
(*         the next root, not yet valid) | foreign | self                  *)
(*  priv : the client holds ck's private key                               *)
(*  nsig : who signed the nonce;  stt: client state none | ok (signed by   *)
(*         nsig) | forged (signed by kx) | unsigned                        *)
(*  skip : the PEER sets skip_verification;  cn: the peer sets common_name *)
(*  nid  : node-id hint: none | own (id of k's record) | other (id of ck)  *)
(*         | bogus (an id no record carries; the storage may answer with   *)
(*         not-found or with an empty set)                                 *)
(*  pref : certificate preference cur | next | garbage | none              *)
(***************************************************************************)
\* records examined by the server-certificate gate
Lookup(st, c) ==
  IF c.nid # NONE /\ st.cfg.nidl
  THEN (IF c.nid = "own" THEN {x \in {c.k} \cap CertKeys : st.rec[x]}
        ELSE IF c.nid = "other" THEN {x \in {c.ck} \cap CertKeys : st.rec[x]}
        ELSE {})                                                       \* "bogus": a node id no record carries
  ELSE {x \in {c.k} \cap CertKeys : st.rec[x]}                         \* a key outside the pool ("kx") has no record

StateOK(c, r) == c.stt = NONE \/ (c.stt = "ok" /\ c.nsig = r)
GateOK(st, c) == \E r \in Lookup(st, c) : c.nsig = r /\ StateOK(c, r)

ChainOK(st, c) == c.chain = "b0" /\ c.ck \in CertKeys /\ st.cert[c.ck] = "fresh"
\* the expected-key check compares the certificate's subject key with the key named in the request, when one is named
TlsOK(st, c) == ChainOK(st, c) /\ c.priv /\ (c.k = NONE \/ c.ck = c.k)
ServerCertOK(c) == c.pref \in {"cur", NONE}

\* kind "mixedFA": fetch-request chunks FOLLOWED by authentication chunks in one ClientHello: the first
\* library protocol decides, so it is a fetch; "mixedAF": authentication chunks first: an authentication.
IsAuthKind(c) == c.kind \in {"auth", "mixedAF"}
DoConnect(st, c) ==
  IF c.kind = "base" THEN Out(IF st.cfg.base THEN "base" ELSE "temperr", st)
  ELSE IF c.kind \in {"fetch", "mixedFA"} THEN Out("temperr", st)   \* a credential fetch never yields a connection
  ELSE IF GateOK(st, c) /\ TlsOK(st, c) /\ ServerCertOK(c) THEN Out("auth", st)
  ELSE Out("temperr", st)

\* honest node dialing with protocol.Dial (extras / state only shape the metadata)
DoDial(st, o) ==
  IF st.cert[o.k] = "none" THEN Out("skip", st)
  ELSE IF st.cert[o.k] = "pending" THEN
       (IF st.rec[o.k] THEN Out("auth", [st EXCEPT !.cert[o.k] = "fresh"])     \* first dial after authorisation: fetch, then authenticate
        ELSE Out("notauth", st))                                                \* ErrNotAuthorized, nothing stored
  ELSE IF st.rec[o.k] /\ st.cert[o.k] = "fresh" THEN Out("auth", st) ELSE Out("temperr", st)

\* malformed / hostile input of class o.cls: always a per-connection failure
DoMalformed(st, o) == Out("temperr", st)

Apply(st, o) ==
  CASE o.op = "Enroll" -> DoEnroll(st, o)
    [] o.op = "Remove" -> DoRemove(st, o)
    [] o.op = "Reinit" -> DoReinit(st)
    [] o.op = "Connect" -> DoConnect(st, o)
    [] o.op = "Dial" -> DoDial(st, o)
    [] o.op = "NewNode" -> DoNewNode(st, o)
    [] o.op = "AuthorizePending" -> DoAuthorizePending(st, o)
    [] o.op = "Rogue" -> DoRogue(st, o)
    [] o.op = "RotateWait" -> DoRotateWait(st)
    [] o.op = "ExpireWait" -> DoExpireWait(st)
    [] o.op = "RotateNode" -> DoRotateNode(st, o)
    [] o.op = "RemovePrev" -> DoRemovePrev(st, o)
    [] o.op = "DialPrev" -> DoDialPrev(st, o)
    [] o.op = "Malformed" -> DoMalformed(st, o)

(* universes *)
AuthClients == [op : {"Connect"}, kind : {"auth"}, k : CertKeys, ck : CertKeys, chain : {"b0", "b1", "foreign", "self"},
                priv : BOOLEAN, nsig : Signers, stt : {NONE, "ok", "forged", "unsigned"}, skip : BOOLEAN,
                nid : {NONE, "own", "other", "bogus"}, pref : {"cur", "next", "garbage", NONE}, cn : BOOLEAN]
MixedClients == {[c EXCEPT !.kind = m] : c \in {x \in AuthClients : ~x.cn /\ x.pref = "cur" /\ x.nid = NONE /\ x.stt = NONE},
                                          m \in {"mixedFA", "mixedAF"}}
OtherClients == [op : {"Connect"}, kind : {"base", "fetch"}, k : CertKeys, ck : CertKeys, chain : {"self"},
                 priv : {TRUE}, nsig : {NONE}, stt : {NONE}, skip : {FALSE}, nid : {NONE}, pref : {NONE}, cn : {FALSE}]
Clients == AuthClients \cup OtherClients \cup MixedClients

MalClasses == {"empty", "short1", "short2", "nob64", "b64rand", "b64trunc", "oversize", "mixed", "dup", "badindex",
               "nontls", "dropAfterHello", "dropMidHello", "silentClose", "wrappedShort", "hugeEntry", "prefOnly",
               "clientAlert", "resetMidHello", "resetAfterHello", "flipUndecodable", "rawSslv2", "rawOversizeRecord", "rawHttp", "rawBadVersion",
               \* a peer that keeps its handshake open (sending nothing / part of a record header / a whole ClientHello) for
               \* several seconds while an honest node dials, then goes away
               "stallSilent", "stallPartial", "stallAfterHello"}
MalPrefixes == {"fetch", "auth", "pref"}

(***************************************************************************)
(* C07 (node side)                                                         *)
(***************************************************************************)
AllowedC07(st, o, res, credsUnchanged) ==
  /\ (o.op = "Rogue" => res # "conn")
  /\ (o.op = "Dial" /\ st.cert[o.k] = "pending" /\ ~st.rec[o.k] => res = "notauth" /\ credsUnchanged)
  /\ (o.op = "Dial" /\ st.rec[o.k] /\ st.cert[o.k] \in {"pending", "fresh"} => res = "auth")

(***************************************************************************)
(* C02                                                                     *)
(***************************************************************************)
\* what the property requires of an authenticated connection: possession of a certificate key certified by a
\* currently valid root, and a nonce (and state) signed by the key of a stored record: the record OF THAT
\* CERTIFICATE KEY, or - node-id path - a record under the node id the client names.  (The statement does not
\* require the key named inside the request to equal the certificate key; the code's expected-key check is
\* how it ties the two on the key path, and is part of the prediction, not of the property.)
C02Auth(st, c) ==
  /\ c.kind \in {"auth", "mixedAF", "mixedFA"}
  /\ c.priv                                             \* proved possession
  /\ ChainOK(st, c)                                     \* certified by a currently valid root of this server
  /\ \/ (c.ck \in CertKeys /\ st.rec[c.ck] /\ c.nsig = c.ck)
     \/ (c.nid # NONE /\ st.cfg.nidl /\ \E r \in Lookup(st, c) : c.nsig = r)
  /\ (c.stt # NONE => c.stt = "ok")                     \* client state, when present, verifies too
AllowedC02(st, c, res) ==
  /\ (res = "auth" => C02Auth(st, c))
  /\ (c.kind = "fetch" => res \notin {"auth", "base", "fetchconn"})
  /\ (c.kind = "mixedFA" => res # "auth")      \* the fetch came first: a credential-fetch handshake never yields a connection
  /\ res \in {"auth", "base", "temperr"}
=============================================================================
