----------------------------- MODULE Handshake -----------------------------
(***************************************************************************)
(* The per-connection pipeline of protocol.InterceptingListener.Accept:    *)
(*   classify the ClientHello ALPN list -> decode the carried request ->   *)
(*   GenerateServerCertificates gate (node record + nonce/state signature) *)
(*   -> TLS with client-certificate verification against the currently     *)
(*   valid roots, expected subject key, proof of possession -> outcome.    *)
(* Server state: which node records exist, what certificates each identity *)
(* holds (none / pending / fresh = issued under the current root pair      *)
(* (current, next) / old = issued under the pair before the last           *)
(* promotion: its second chain is from the root that is current now /      *)
(* stale = no chain from a root the server has), and the PHASE of the      *)
(* server's root pair in time: early (current valid, next not yet),        *)
(* overlap (both valid), late (current expired, next valid, not rotated).  *)
(* Outcomes: "auth" (connection negotiated the node-authentication         *)
(* protocol), "base" (fell through to the application's TLS config),       *)
(* "temperr" (per-connection failure, listener keeps going).               *)
(***************************************************************************)
EXTENDS Integers, Sequences, FiniteSets, TLC

CONSTANTS CertKeys     \* identities, e.g. {"k1","k2","k3"}

NONE == "none"
Signers == CertKeys \cup {NONE, "kx"}      \* kx: a key unknown to the server

\* prevrec[k]: the record of the identity's PREVIOUS certificate key is still stored (after a node credential
\* rotation); hasprev[k]: the node still holds its previous credentials
InitState(cfg) == [rec |-> [k \in CertKeys |-> FALSE], cert |-> [k \in CertKeys |-> "none"],
                   prevrec |-> [k \in CertKeys |-> FALSE], hasprev |-> [k \in CertKeys |-> FALSE],
                   prevcert |-> [k \in CertKeys |-> "none"], phase |-> "early", cfg |-> cfg]

Issued == {"fresh", "old", "stale"}                 \* the identity holds certificates
ValidCur(st) == st.phase \in {"early", "overlap"}
ValidNext(st) == st.phase \in {"overlap", "late"}
\* a holder of certificates of kind x (fresh / old / stale) has some chain that is valid now and from a root the server has
Connectable(st, x) == x = "fresh" \/ (x = "old" /\ ValidCur(st))
Age(x) == IF x = "fresh" THEN "old" ELSE IF x = "old" THEN "stale" ELSE x      \* one promotion later
Kill(x) == IF x \in {"fresh", "old"} THEN "stale" ELSE x                        \* both roots replaced
\* cfg = [nidl |-> storage supports lookup by node id, base |-> a base TLS configuration exists]

Out(res, st) == [res |-> res, st |-> st]

\* C07 (node side): a node that created credentials but is not yet authorised is "pending"
DoNewNode(st, o) == IF st.cert[o.k] # "none" THEN Out("skip", st) ELSE Out("ok", [st EXCEPT !.cert[o.k] = "pending"])
DoAuthorizePending(st, o) ==
  IF st.cert[o.k] = "pending" /\ ~st.rec[o.k] THEN Out("ok", [st EXCEPT !.rec[o.k] = TRUE]) ELSE Out("skip", st)
\* any peer that is not the node's own server: foreign roots, a certificate minted for another nonce, no nonce,
\* wrong extended key usage, self-signed, with or without mimicking the library's ALPN
RogueKinds == {"foreign", "staleNonce", "noNonce", "wrongEku", "selfSigned", "foreignNoAlpn", "foreignExtraAlpn", "nextRootNotYetValid",
               "otherDeployment",       \* certificate with the fresh nonce under the root of ANOTHER deployment whose node credentials were
                                        \* turned into client TLS configurations earlier in the same process (trust is per credentials, not per process)
               "staleNonceExtraCert"}   \* genuine certificate for another nonce + an extra throw-away certificate carrying the fresh nonce
DoRogue(st, o) == IF st.cert[o.k] \notin Issued THEN Out("skip", st) ELSE Out("error", st)
\* real time passes until the next root has become valid as well
DoWaitOverlap(st) == IF st.phase = "early" THEN Out("ok", [st EXCEPT !.phase = "overlap"]) ELSE Out("skip", st)
\* the server rotates its roots once the next root is valid (real time): next is promoted, a new next is minted (not
\* yet valid); holders of the old pair keep their second chain, which is from the root that is current now
DoRotateWait(st) == Out("ok", [st EXCEPT !.phase = "early", !.cert = [k \in CertKeys |-> Age(st.cert[k])],
                                         !.prevcert = [k \in CertKeys |-> Age(st.prevcert[k])]])
\* the operator is late: the current root expires (real time) while the next root is valid and no rotation has run;
\* the server serves from the next root only
DoExpireWait(st) == IF st.phase = "late" THEN Out("skip", st) ELSE Out("ok", [st EXCEPT !.phase = "late"])

\* node credential rotation end to end (rotation.RotateNodeCredentials authenticated by the current shared key):
\* the new key gets a record, the old record stays until the application removes it
DoRotateNode(st, o) ==
  IF st.cert[o.k] \notin Issued THEN Out("skip", st)
  ELSE IF ~st.rec[o.k] THEN Out("error", st)
  ELSE Out("ok", [st EXCEPT !.prevrec[o.k] = TRUE, !.hasprev[o.k] = TRUE, !.prevcert[o.k] = st.cert[o.k], !.cert[o.k] = "fresh"])
DoRemovePrev(st, o) == IF st.prevrec[o.k] THEN Out("ok", [st EXCEPT !.prevrec[o.k] = FALSE]) ELSE Out("skip", st)
\* dialing with the PREVIOUS credentials
DoDialPrev(st, o) ==
  IF ~st.hasprev[o.k] THEN Out("skip", st)
  ELSE IF st.prevrec[o.k] /\ Connectable(st, st.prevcert[o.k]) THEN Out("auth", st) ELSE Out("temperr", st)

DoEnroll(st, o) ==   \* operator-authorised enrolment of a brand-new identity
  IF st.cert[o.k] # "none" THEN Out("skip", st)
  ELSE Out("ok", [st EXCEPT !.rec[o.k] = TRUE, !.cert[o.k] = "fresh"])
DoRemove(st, o) == IF st.rec[o.k] THEN Out("ok", [st EXCEPT !.rec[o.k] = FALSE]) ELSE Out("skip", st)
DoReinit(st) == Out("ok", [st EXCEPT !.cert = [k \in CertKeys |-> Kill(st.cert[k])],
                                     !.prevcert = [k \in CertKeys |-> Kill(st.prevcert[k])], !.phase = "early"])

(***************************************************************************)
(* Adversarial client c = [kind, k, ck, chain, priv, nsig, stt, skip, nid, *)
(*                         pref, cn]                                       *)
(*  k    : key named in the ALPN-carried request                           *)
(*  ck   : identity whose certificate chain is presented                   *)
(*  chain: b0 (chain from the root that was current at issuance) | b1 (from *)
(*         the root that was next at issuance) | foreign | self |          *)
(*         selfNoSan (self-signed, no subject alternative names) |         *)
(*         leadOwn (a throwaway self-signed certificate for a key the      *)
(*         client holds, FOLLOWED by ck's genuine b0 chain: TLS proves     *)
(*         possession of the first certificate's key only, so this is a    *)
(*         client without ck's key whatever else it sends along)           *)
(*  priv : the client holds ck's private key                               *)
(*  nsig : who signed the nonce;  stt: client state none | ok (signed by   *)
(*         nsig) | forged (signed by kx) | unsigned                        *)
(*  skip : the PEER sets skip_verification;  cn: the peer sets common_name *)
(*  nid  : node-id hint: none | own (id of k's record) | other (id of ck)  *)
(*         | bogus (an id no record carries; the storage may answer with   *)
(*         not-found or with an empty set)                                 *)
(*  pref : certificate preference cur | next | garbage | none              *)
(***************************************************************************)
\* records examined by the server-certificate gate
Lookup(st, c) ==
  IF c.nid # NONE /\ st.cfg.nidl
  THEN (IF c.nid = "own" THEN {x \in {c.k} \cap CertKeys : st.rec[x]}
        ELSE IF c.nid = "other" THEN {x \in {c.ck} \cap CertKeys : st.rec[x]}
        ELSE {})                                                       \* "bogus": a node id no record carries
  ELSE {x \in {c.k} \cap CertKeys : st.rec[x]}                         \* a key outside the pool ("kx") has no record

StateOK(c, r) == c.stt = NONE \/ (c.stt = "ok" /\ c.nsig = r)
GateOK(st, c) == \E r \in Lookup(st, c) : c.nsig = r /\ StateOK(c, r)

\* the presented chain is from a root the server has now AND that root is valid now
ChainOK(st, c) ==
  /\ c.ck \in CertKeys
  /\ \/ (c.chain = "b0" /\ st.cert[c.ck] = "fresh" /\ ValidCur(st))
     \/ (c.chain = "b1" /\ st.cert[c.ck] = "fresh" /\ ValidNext(st))
     \/ (c.chain = "b1" /\ st.cert[c.ck] = "old" /\ ValidCur(st))
\* the expected-key check compares the certificate's subject key with the key named in the request, when one is named
TlsOK(st, c) == ChainOK(st, c) /\ c.priv /\ (c.k = NONE \/ c.ck = c.k)
\* the server certificate the client asks for exists only for a root that is valid now
ServerCertOK(st, c) == (c.pref = "cur" /\ ValidCur(st)) \/ (c.pref = "next" /\ ValidNext(st)) \/ c.pref = NONE

\* kind "mixedFA": fetch-request chunks FOLLOWED by authentication chunks in one ClientHello: the first
\* library protocol decides, so it is a fetch; "mixedAF": authentication chunks first: an authentication.
IsAuthKind(c) == c.kind \in {"auth", "mixedAF"}
DoConnect(st, c) ==
  IF c.kind = "base" THEN Out(IF st.cfg.base THEN "base" ELSE "temperr", st)
  ELSE IF c.kind \in {"fetch", "mixedFA"} THEN Out("temperr", st)   \* a credential fetch never yields a connection
  ELSE IF GateOK(st, c) /\ TlsOK(st, c) /\ ServerCertOK(st, c) THEN Out("auth", st)
  ELSE Out("temperr", st)

\* honest node dialing with protocol.Dial (extras / state only shape the metadata)
DoDial(st, o) ==
  IF st.cert[o.k] = "none" THEN Out("skip", st)
  ELSE IF st.cert[o.k] = "pending" THEN
       (IF st.rec[o.k] THEN Out("auth", [st EXCEPT !.cert[o.k] = "fresh"])     \* first dial after authorisation: fetch, then authenticate
        ELSE Out("notauth", st))                                                \* ErrNotAuthorized, nothing stored
  ELSE IF st.rec[o.k] /\ Connectable(st, st.cert[o.k]) THEN Out("auth", st) ELSE Out("temperr", st)

\* malformed / hostile input of class o.cls: always a per-connection failure
DoMalformed(st, o) == Out("temperr", st)

Apply(st, o) ==
  CASE o.op = "Enroll" -> DoEnroll(st, o)
    [] o.op = "Remove" -> DoRemove(st, o)
    [] o.op = "Reinit" -> DoReinit(st)
    [] o.op = "Connect" -> DoConnect(st, o)
    [] o.op = "Dial" -> DoDial(st, o)
    [] o.op = "NewNode" -> DoNewNode(st, o)
    [] o.op = "AuthorizePending" -> DoAuthorizePending(st, o)
    [] o.op = "Rogue" -> DoRogue(st, o)
    [] o.op = "RotateWait" -> DoRotateWait(st)
    [] o.op = "WaitOverlap" -> DoWaitOverlap(st)
    [] o.op = "ExpireWait" -> DoExpireWait(st)
    [] o.op = "RotateNode" -> DoRotateNode(st, o)
    [] o.op = "RemovePrev" -> DoRemovePrev(st, o)
    [] o.op = "DialPrev" -> DoDialPrev(st, o)
    [] o.op = "Malformed" -> DoMalformed(st, o)

(* universes *)
AuthClients == [op : {"Connect"}, kind : {"auth"}, k : CertKeys, ck : CertKeys, chain : {"b0", "b1", "foreign", "self", "selfNoSan", "leadOwn"},
                priv : BOOLEAN, nsig : Signers, stt : {NONE, "ok", "forged", "unsigned"}, skip : BOOLEAN,
                nid : {NONE, "own", "other", "bogus"}, pref : {"cur", "next", "garbage", NONE}, cn : BOOLEAN]
MixedClients == {[c EXCEPT !.kind = m] : c \in {x \in AuthClients : ~x.cn /\ x.pref = "cur" /\ x.nid = NONE /\ x.stt = NONE},
                                          m \in {"mixedFA", "mixedAF"}}
OtherClients == [op : {"Connect"}, kind : {"base", "fetch"}, k : CertKeys, ck : CertKeys, chain : {"self"},
                 priv : {TRUE}, nsig : {NONE}, stt : {NONE}, skip : {FALSE}, nid : {NONE}, pref : {NONE}, cn : {FALSE}]
Clients == AuthClients \cup OtherClients \cup MixedClients

MalClasses == {"empty", "short1", "short2", "nob64", "b64rand", "b64trunc", "oversize", "mixed", "dup", "badindex",
               "nontls", "dropAfterHello", "dropMidHello", "silentClose", "wrappedShort", "hugeEntry", "prefOnly",
               "clientAlert", "resetMidHello", "resetAfterHello", "flipUndecodable", "rawSslv2", "rawOversizeRecord", "rawHttp", "rawBadVersion",
               \* a peer that keeps its handshake open (sending nothing / part of a record header / a whole ClientHello) for
               \* several seconds while an honest node dials, then goes away
               "stallSilent", "stallPartial", "stallAfterHello",
               \* a peer that COMPLETES a well-formed credential-fetch handshake and resets its socket right after its last flight
               "resetAfterHandshake",
               \* a well-signed fetch request whose nonce is a well-formed activation token the server does not hold / is garbage
               "unknownToken", "garbageToken",
               \* a fetch request whose certificate key keeps the DER header of an Ed25519 key but has the wrong length
               "keyTrunc", "keyHeaderOnly", "keyLong",
               \* a well-signed fetch request in the relayed shape naming a registered node as the relay, its sealed blob without
               \* key information; an authentication request without credentials whose client state bytes are no state at all
               "rewrapNoKeyInfo", "authStateGarbage"}
MalPrefixes == {"fetch", "auth", "pref"}

(***************************************************************************)
(* C07 (node side)                                                         *)
(***************************************************************************)
AllowedC07(st, o, res, credsUnchanged) ==
  /\ (o.op = "Rogue" => res # "conn")
  /\ (o.op = "Dial" /\ st.cert[o.k] = "pending" /\ ~st.rec[o.k] => res = "notauth" /\ credsUnchanged)
  /\ (o.op = "Dial" /\ st.rec[o.k] /\ (st.cert[o.k] = "pending" \/ Connectable(st, st.cert[o.k])) => res = "auth")

(***************************************************************************)
(* C02                                                                     *)
(***************************************************************************)
\* what the property requires of an authenticated connection: possession of a certificate key certified by a
\* currently valid root, and a nonce (and state) signed by the key of a stored record: the record OF THAT
\* CERTIFICATE KEY, or - node-id path - a record under the node id the client names.  (The statement does not
\* require the key named inside the request to equal the certificate key; the code's expected-key check is
\* how it ties the two on the key path, and is part of the prediction, not of the property.)
C02Auth(st, c) ==
  /\ c.kind \in {"auth", "mixedAF", "mixedFA"}
  /\ c.priv                                             \* proved possession
  /\ ChainOK(st, c)                                     \* certified by a currently valid root of this server
  /\ \/ (c.ck \in CertKeys /\ st.rec[c.ck] /\ c.nsig = c.ck)
     \/ (c.nid # NONE /\ st.cfg.nidl /\ \E r \in Lookup(st, c) : c.nsig = r)
  /\ (c.stt # NONE => c.stt = "ok")                     \* client state, when present, verifies too
AllowedC02(st, c, res) ==
  /\ (res = "auth" => C02Auth(st, c))
  /\ (c.kind = "fetch" => res \notin {"auth", "base", "fetchconn"})
  /\ (c.kind = "mixedFA" => res # "auth")      \* the fetch came first: a credential-fetch handshake never yields a connection
  /\ res \in {"auth", "base", "temperr"}
=============================================================================
