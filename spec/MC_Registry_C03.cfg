SPECIFICATION Spec
CONSTANTS
  CertKeys = {"k1","k2"}
  EncKeys = {"e1","e2"}
  Nonces = {"n1","n2"}
  Tokens = {}
  AppStates = {}
  NodeIds = {"N1"}
  Enabled = {"Authorize","Remove"}
  MaxGen = 2
  CfgSW = FALSE
  CfgNidl = FALSE
  CfgSO = FALSE
  CfgRmErr = FALSE
INVARIANTS InvC03
CHECK_DEADLOCK FALSE
