----------------------------- MODULE EnrollTrace -----------------------------
EXTENDS Enroll, Json
CONSTANTS TraceFile, Props
TraceLog == ndJsonDeserialize(TraceFile)
VARIABLES l, cnt
tvars == <<l, cnt>>
Viols(e) ==
  IF e.res = "panic" THEN {"panic"}
  ELSE IF e.op.subst = "none" THEN HonestViolations(e.obs)
  ELSE (IF ~e.obs.issued THEN {"honest-enrolment-not-answered"} ELSE {}) \cup
       (IF e.obs.issued /\ ~e.obs.refused THEN {"node-accepts-substituted-response"} ELSE {})
TInit == l = 1 /\ cnt = [lines |-> 0, nontrivial |-> 0, drift |-> 0, viol |-> 0, unc |-> 0]
       /\ cfg = [flow |-> "operator", backend |-> "inmem", sw |-> FALSE, state |-> "none", params |-> FALSE, subst |-> "none", roots |-> "fresh"]
       /\ pc = "done" /\ srv = [token |-> FALSE, mid |-> FALSE, record |-> FALSE] /\ resp = "none" /\ nodeHas = "none"
Step ==
  /\ l <= Len(TraceLog)
  /\ LET e == TraceLog[l] vs == IF e.res = "setup-error" THEN {} ELSE Viols(e)
         drift == e.res # "setup-error" /\ e.op.subst = "none" /\ ~e.obs.stateOK IN
       /\ \A v \in vs : PrintT(<<"VIOL", "C04", v, e.tr, e.i>>)
       /\ (drift => PrintT(<<"DRIFT", e.tr, e.i, e.op.flow, "state", e.res, FALSE>>))
       /\ (e.res = "setup-error" => PrintT(<<"NOTE", "setup-error", e.tr, e.i>>))
       /\ cnt' = [lines |-> cnt.lines + 1, nontrivial |-> cnt.nontrivial + 1, drift |-> cnt.drift + (IF drift THEN 1 ELSE 0),
                  viol |-> cnt.viol + Cardinality(vs), unc |-> 0]
       /\ l' = l + 1
  /\ UNCHANGED vars
Finish == l = Len(TraceLog) + 1 /\ PrintT(<<"DONE", cnt.lines, cnt.nontrivial, cnt.drift, cnt.viol, cnt.unc>>) /\ l' = l + 1 /\ UNCHANGED <<cnt, vars>>
TNext == Step \/ Finish
TSpec == TInit /\ [][TNext]_<<tvars, vars>>
=============================================================================
