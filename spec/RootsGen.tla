------------------------------ MODULE RootsGen ------------------------------
(* Behaviour generator for the roots family: MC_Roots plus a history         *)
(* variable that exists only here.  GMode:                                   *)
(*   "table"   : inject a random stored record of the table model, rotate    *)
(*               (with or without reinitialisation), then free steps         *)
(*   "free"    : from empty storage, arbitrary ticks and rotations           *)
(*   "cadence" : schedules satisfying the cadence bounds of C09, with node   *)
(*               (re-)enrolments                                             *)
EXTENDS MC_Roots, Json

CONSTANTS Depth, GMode

VARIABLES hist, done

gvars == <<vars, hist, done>>

Inj(r) == IF IsAbsent(r) THEN [present |-> FALSE, nb |-> 0, na |-> 0] ELSE [present |-> TRUE, nb |-> r.nb, na |-> r.na]

GInit ==
  /\ Init /\ done = FALSE
  /\ IF GMode = "table" THEN hist = <<[op |-> "Inject", cur |-> Inj(s.cur), next |-> Inj(s.next)]>>
     ELSE hist = <<>>

FreeTick(d) ==
  /\ now' = now + d
  /\ UNCHANGED <<s, nid, lastRot, last, enrolled, chains, lastEnr>>

FreeRot(b) ==
  LET r == Rotate(s, now, P, b, nid) IN
    /\ s' = r.s /\ nid' = nid + r.minted /\ lastRot' = now
    /\ last' = [valid |-> TRUE, pre |-> s, post |-> r.s, reinit |-> b, now |-> now, ok |-> r.ok]
    /\ UNCHANGED <<now, enrolled, chains, lastEnr>>

\* "faulty": as "free", with a storage fault at one step of the call and/or a different certificate lifetime for the call
Lifetimes == {L, L, 2 * L, 3 * L, (L + 1) \div 2}
FaultyRot(b, f, lx) ==
  LET r == RotateF(s, now, [P EXCEPT !.L = lx], b, nid, f) IN
    /\ s' = r.s /\ nid' = nid + r.minted /\ lastRot' = now
    /\ last' = NoLast
    /\ UNCHANGED <<now, enrolled, chains, lastEnr>>

GStep ==
  /\ Len(hist) < Depth
  /\ IF GMode = "cadence" THEN
        \/ (Rot(FALSE) /\ hist' = Append(hist, [op |-> "Rotate", reinit |-> FALSE]))
        \/ (Tick /\ hist' = Append(hist, [op |-> "Tick", d |-> 1]))
        \/ \E d \in {RandomElement(1..R)} :          \* longer waits, still within both cadence bounds
              /\ ~IsEmpty(s) /\ now + d - lastRot <= R /\ (enrolled => now + d - lastEnr <= N)
              /\ FreeTick(d) /\ hist' = Append(hist, [op |-> "Tick", d |-> d])
        \/ (Enroll /\ hist' = Append(hist, [op |-> "Enroll"]))
     ELSE IF GMode = "faulty" THEN
        \/ \E b \in {RandomElement({FALSE, FALSE, TRUE})}, f \in {RandomElement({"none", "none", "remove", "load", "store"})}, lx \in {RandomElement(Lifetimes)} :
              (FaultyRot(b, f, lx) /\ hist' = Append(hist, [op |-> "Rotate", reinit |-> b, fault |-> f, Lx |-> lx, skip |-> FALSE]))
        \* a call with the skip-storage option (no fault): nothing is written, except that a reinitialisation removes first
        \/ \E b \in {RandomElement({FALSE, TRUE})} :
              LET r == RotateSkip(s, now, P, b, nid) IN
                /\ s' = r.s /\ nid' = nid + r.minted /\ lastRot' = now /\ last' = NoLast
                /\ UNCHANGED <<now, enrolled, chains, lastEnr>>
                /\ hist' = Append(hist, [op |-> "Rotate", reinit |-> b, fault |-> "none", Lx |-> L, skip |-> TRUE])
        \/ \E d \in {RandomElement(1..(2 * L))} : (FreeTick(d) /\ hist' = Append(hist, [op |-> "Tick", d |-> d]))
        \/ \E d \in {RandomElement(1..2)} : (FreeTick(d) /\ hist' = Append(hist, [op |-> "Tick", d |-> d]))
     ELSE
        \/ \E b \in {RandomElement({FALSE, FALSE, FALSE, TRUE})} : (FreeRot(b) /\ hist' = Append(hist, [op |-> "Rotate", reinit |-> b]))
        \/ \E d \in {RandomElement(1..(2 * L))} : (FreeTick(d) /\ hist' = Append(hist, [op |-> "Tick", d |-> d]))
        \/ \E d \in {RandomElement(1..2)} : (FreeTick(d) /\ hist' = Append(hist, [op |-> "Tick", d |-> d]))
  /\ done' = FALSE

GEmit ==
  /\ Len(hist) = Depth /\ ~done
  /\ PrintT(<<"BEH", ToJson(hist)>>)
  /\ done' = TRUE /\ UNCHANGED <<vars, hist>>

GNext == GStep \/ GEmit
GSpec == GInit /\ [][GNext]_gvars
=============================================================================
