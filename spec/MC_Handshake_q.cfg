SPECIFICATION Spec
CONSTANTS
  CertKeys = {"k1","k2"}
  CfgNidl = TRUE
  CfgBase = TRUE
INVARIANTS InvC02 InvNoWaiver
CHECK_DEADLOCK FALSE
