SPECIFICATION Spec
CONSTANTS
  Conns = {"A","B"}
  KindOf <- KTokAuth
  N = 1
  Spare = 2
  Sharing = "listener"
INVARIANTS Isolation NoSharedWrite
CHECK_DEADLOCK FALSE
