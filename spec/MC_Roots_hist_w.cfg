SPECIFICATION Spec
CONSTANTS
  L = 8
  SKNBabs = 1
  SKNA = 1
  GridHalf = 0
  R = 4
  NExtra = 1
  T = 40
  Mode = "history"
INVARIANTS InvNodeTrust
CHECK_DEADLOCK FALSE
