------------------------------ MODULE MC_Roots ------------------------------
(* Bounded exhaustive models of root rotation.                               *)
(*  Table  : every stored record on a small grid around now = 0 (all weak    *)
(*           orderings of the four instants relative to now, plus missing    *)
(*           and half-missing records) x reinitialise, one rotation each.    *)
(*  History: every schedule of Tick / Rotate / node (re-)enrolment from      *)
(*           empty storage that satisfies the cadence bounds of C09.         *)
EXTENDS Roots

CONSTANTS L, SKNBabs, SKNA, \* lifetime and skews (not-before skew = -SKNBabs <= 0 <= SKNA); cfg files cannot hold negative numbers
          GridHalf,        \* the table model ranges over instants -GridHalf..GridHalf
          R,               \* maximal interval between server rotations
          NExtra,          \* 0: node cadence = stated bound; 1: bound + 1 (must break C09)
          T,               \* time horizon
          Mode             \* "table" | "history"

SKNB == -SKNBabs
Grid == (-GridHalf)..GridHalf
P == [L |-> L, sknb |-> SKNB, skna |-> SKNA]
N == NodeBound(P, R) + NExtra

VARIABLES now, s, nid, lastRot, last, enrolled, chains, lastEnr

vars == <<now, s, nid, lastRot, last, enrolled, chains, lastEnr>>

Windows == {w \in [nb : Grid, na : Grid] : w.nb < w.na}
Root(i, w) == [id |-> i, nb |-> w.nb, na |-> w.na]
TableStates == {Stored(Root(1, a), Root(2, b)) : a \in Windows, b \in Windows}
               \cup {Stored(Root(1, a), Absent) : a \in Windows}
               \cup {Stored(Absent, Root(2, b)) : b \in Windows}
               \cup {Empty}

NoLast == [valid |-> FALSE, pre |-> Empty, post |-> Empty, reinit |-> FALSE, now |-> 0, ok |-> TRUE]

Init ==
  /\ now = 0 /\ nid = 10 /\ lastRot = 0 /\ last = NoLast
  /\ enrolled = FALSE /\ chains = <<>> /\ lastEnr = 0
  /\ IF Mode = "table" THEN s \in TableStates ELSE s = Empty

Rot(reinit) ==
  /\ (enrolled => now - lastEnr < N)              \* at its deadline the node acts first
  /\ LET r == Rotate(s, now, P, reinit, nid) IN
       /\ s' = r.s
       /\ nid' = nid + r.minted
       /\ last' = [valid |-> TRUE, pre |-> s, post |-> r.s, reinit |-> reinit, now |-> now, ok |-> r.ok]
  /\ lastRot' = now
  /\ UNCHANGED <<now, enrolled, chains, lastEnr>>

\* a rotation during which one storage operation on the roots record fails (table model only)
FRot(reinit, f) ==
  LET r == RotateF(s, now, P, reinit, nid, f) IN
    /\ s' = r.s /\ nid' = nid + r.minted /\ lastRot' = now
    /\ last' = [valid |-> TRUE, pre |-> s, post |-> r.s, reinit |-> reinit, now |-> now, ok |-> r.ok]
    /\ UNCHANGED <<now, enrolled, chains, lastEnr>>

Tick ==
  /\ Mode = "history"
  /\ now < T
  /\ ~IsEmpty(s)
  /\ now + 1 - lastRot <= R
  /\ (enrolled => now + 1 - lastEnr <= N)
  /\ now' = now + 1
  /\ UNCHANGED <<s, nid, lastRot, last, enrolled, chains, lastEnr>>

Enroll ==
  /\ Mode = "history" /\ ~IsEmpty(s)
  /\ chains' = ChainsFrom(s) /\ lastEnr' = now /\ enrolled' = TRUE
  /\ UNCHANGED <<now, s, nid, lastRot, last>>

Next == (Mode = "table" /\ ~last.valid /\ \E b \in BOOLEAN : (Rot(b) \/ \E f \in Faults \ {"none"} : FRot(b, f)))
        \/ (Mode = "history" /\ (Rot(FALSE) \/ Tick \/ Enroll))
Spec == Init /\ [][Next]_vars

\* C08: every successful rotation leaves what the property states
InvC08 == (last.valid /\ last.ok) => AllowedC08At(last.pre, last.post, last.post, last.reinit, last.now, P, 0)
\* a failed call leaves either what was stored or (reinitialisation, after the removal) nothing - never a partial record
InvFailed == (last.valid /\ ~last.ok) => (last.post = last.pre \/ (last.reinit /\ IsEmpty(last.post)))
\* the code-shaped decision agrees with the statement's table in every state, rotated or not
InvDecide == \A b \in BOOLEAN : Decide(IF b THEN Empty ELSE s, now) \in TableSet(IF b THEN Empty ELSE s, now)
\* C09
InvNoReset == (last.valid /\ last.ok /\ Mode = "history") => NoReset(last.pre, last.post, last.now, 0)
InvNodeTrust == enrolled => NodeOK(chains, s, now)
\* each root stays trusted from its creation as next until its successor is valid: a root leaves the
\* trusted set only by being replaced as current by the previous next, which is valid at that instant
InvSuccessor == (last.valid /\ last.ok /\ Mode = "history" /\ last.post # last.pre /\ ~IsEmpty(last.pre)) =>
                   /\ Trusted(last.pre) \ Trusted(last.post) = {last.pre.cur.id}
                   /\ ValidAt(last.post.cur, last.now)
\* anti-vacuity
NeverPromotes == ~(last.valid /\ last.post # last.pre /\ ~IsEmpty(last.pre) /\ last.post.cur = last.pre.next)
=============================================================================
