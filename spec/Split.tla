-------------------------------- MODULE Split --------------------------------
(***************************************************************************)
(* net.SplitListener: connections accepted by the intercepting listener    *)
(* are routed to sub-listeners obtained with GetListener(name).            *)
(* Names: application-specific ones, AUTH ("__AUTH__": authenticated, no   *)
(* specific match) and UNAUTH ("__UNAUTH__": everything not authenticated  *)
(* by the library).  The code ranges over a map when it looks for a        *)
(* sub-listener named among the client's offered protocols, so the choice  *)
(* among several matches is nondeterministic.                              *)
(***************************************************************************)
EXTENDS Integers, Sequences, FiniteSets, TLC

CONSTANTS Specific      \* application sub-listener names, e.g. {"sp1","sp2"}

AUTH == "__AUTH__"
UNAUTH == "__UNAUTH__"
Names == Specific \cup {AUTH, UNAUTH}
Offerable == Names \cup {"zz"}          \* what a client may put in its ALPN list besides library entries

SeqToSet(s) == {s[i] : i \in 1..Len(s)}

\* client c = [kind, extras]: kind "node" (authenticates), "base" (plain TLS through the base config), "fetch",
\* "nodeAfter" / "nodeBefore" (the registered node as a raw client that puts its application protocols after the
\* certificate preference / before the library's chunks: routed exactly like "node"),
\* "rogue" (never enrolled: an EMPTY authentication entry followed by the chunks of a self-signed fetch request, with a
\* self-signed certificate: refused, the authentication flow comes first and has nothing to verify)
\* cfg = [reg: set of registered names, native: set of names registered with native connections]
NodeKinds == {"node", "nodeAfter", "nodeBefore"}
Routes(cfg, c) ==
  IF c.kind \in {"fetch", "rogue"} THEN {"none"}                         \* never yields a connection
  ELSE IF c.kind \in NodeKinds THEN
       LET hit == cfg.reg \cap SeqToSet(c.extras) IN
       IF hit # {} THEN hit
       ELSE IF AUTH \in cfg.reg THEN {AUTH} ELSE {"none"}
  ELSE IF UNAUTH \in cfg.reg THEN {UNAUTH} ELSE {"none"}                 \* not authenticated

\* what the property states about a delivery `from` (or "none") of client c
AllowedC17(cfg, c, from, native, auth) ==
  /\ (from \notin {UNAUTH, "none"} => c.kind \in NodeKinds /\ auth)          \* authenticated sub-listeners get authenticated connections only
  /\ (c.kind \notin NodeKinds => from \in {UNAUTH, "none"} /\ (from = "none" <=> (UNAUTH \notin cfg.reg \/ c.kind \in {"fetch", "rogue"})))
  /\ (c.kind \in NodeKinds =>
        LET hit == cfg.reg \cap SeqToSet(c.extras) IN
        IF hit # {} THEN from \in hit
        ELSE IF AUTH \in cfg.reg THEN from = AUTH ELSE from = "none")
  /\ (from # "none" => (native <=> from \in cfg.native))                \* plain TLS connections unless native ones were requested

\* A later GetListener(name) for a name that is already registered returns the existing sub-listener: it requests
\* nothing, so the registry - in particular whether that sub-listener hands out native connections - is unchanged.
\* (Only the option-less second lookup is in the universe: what a second lookup WITH options should do is not stated.)
Lookup(cf, n) == cf
\* a node's client state (st: none / big = 4 KiB carried in the authentication request, i.e. many more ALPN chunks)
\* has no bearing on routing: Routes and AllowedC17 do not read it
States == {"none", "big"}

Configs == {cf \in [reg : SUBSET Names, native : SUBSET Names] : cf.native \subseteq cf.reg}
ExtrasLists == {<<>>} \cup {<<a>> : a \in Offerable} \cup {<<a, b>> : a \in Offerable, b \in Offerable}
Clients == [kind : {"node", "nodeAfter", "nodeBefore", "base", "fetch", "rogue"}, extras : ExtrasLists]
=============================================================================
