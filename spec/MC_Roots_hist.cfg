SPECIFICATION Spec
CONSTANTS
  L = 8
  SKNBabs = 1
  SKNA = 1
  GridHalf = 0
  R = 4
  NExtra = 0
  T = 40
  Mode = "history"
INVARIANTS InvC08 InvDecide InvNoReset InvNodeTrust InvSuccessor
CHECK_DEADLOCK FALSE
