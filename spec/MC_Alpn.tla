------------------------------ MODULE MC_Alpn ------------------------------
(* All payload lengths up to MaxLen (3x the point where the chunk number    *)
(* needs a third digit), every position of an interleaved foreign entry.    *)
EXTENDS Alpn
CONSTANT MaxLen
VARIABLE n
Init == n = 1
Next == n < MaxLen /\ n' = n + 1
Spec == Init /\ [][Next]_n
InvRoundTrip == RoundTrip(n)
InvForeign == \A p \in 0..NumChunks(n) : RoundTripForeign(n, p)
InvPrefixAndCount == /\ Len(Break(Payload(n))) = NumChunks(n)
                     /\ \A i \in 1..NumChunks(n) : Break(Payload(n))[i].pfx /\ Len(Chunk(Payload(n), i - 1)) <= Budget
=============================================================================
