---------------------------- MODULE RegistryGen ----------------------------
(* Behaviour generator: the registry spec plus a history variable that      *)
(* exists only here.  Run with `tlc -simulate`; every completed behaviour   *)
(* is printed as one JSON line (BEH marker) and replayed on the real code.  *)
EXTENDS Registry, Json

CONSTANTS Depth, Classes, Fallback, CfgSW, CfgNidl, CfgSO, CfgRmErr

VARIABLES st, hist, done

vars == <<st, hist, done>>

\* constructive sets of authorised requests (cases A, B, C of C01) and their one-field mutations
Plain(k, e, n, life) == Merge(Merge([op |-> "Fetch", k |-> k, e |-> e, n |-> n, life |-> life, selfinfo |-> FALSE], NoWrap), NoRewrap)
AuthA(s) == {Plain(k, s.nodes[k].enc, s.nodes[k].nonce, "default") : k \in Present(s)}
AuthB(s) == {Plain(k, e, t, l) : k \in CertKeys, e \in EncKeys,
                                 t \in {x \in Tokens : Live(s.tokens[x])}, l \in Lives}
AuthC(s) == (IF s.regw = NONE THEN {} ELSE
               {[Plain(k, e, n, "default") EXCEPT !.ww = s.regw, !.wk = k, !.wn = n] :
                   k \in CertKeys, e \in EncKeys, n \in Nonces \cup Tokens})
            \cup {[Plain(k, e, n, "default") EXCEPT !.rby = b, !.rwith = b, !.rk = k, !.rn = n] :
                   b \in Present(s), k \in CertKeys, e \in EncKeys, n \in Nonces}
AuthSet(s) == {r \in AuthA(s) \cup AuthB(s) \cup AuthC(s) : Authorised(s, r)}
Mutations(r) ==
  {[r EXCEPT !.k = x] : x \in CertKeys} \cup {[r EXCEPT !.e = x] : x \in EncKeys}
  \cup {[r EXCEPT !.n = x] : x \in AllNonces}
  \* an unauthorised request that merely CLAIMS registration info: self-asserted info plus a junk sealed blob
  \cup {[r EXCEPT !.k = x, !.selfinfo = TRUE, !.ww = "W2", !.wk = x, !.wn = r.n] : x \in CertKeys}
  \cup (IF HasWrapped(r) THEN {[r EXCEPT !.wk = "absent", !.wn = "absent"], [r EXCEPT !.wk = "absent"], [r EXCEPT !.wn = "absent"]} ELSE {})
  \cup {[Merge(r, [back |-> TRUE]) EXCEPT !.life = x] : x \in Lives}
  \cup (IF HasWrapped(r) THEN {[r EXCEPT !.ww = "W2"]} \cup {[r EXCEPT !.wk = x] : x \in CertKeys}
                               \cup {[r EXCEPT !.wn = x] : x \in Nonces \cup Tokens} ELSE {})
  \cup (IF HasRewrapped(r) THEN {[r EXCEPT !.rwith = x] : x \in CertKeys \cup {"rand"}}
                               \cup {[r EXCEPT !.rby = x] : x \in CertKeys}
                               \cup {[r EXCEPT !.rk = x] : x \in CertKeys}
                               \cup {[r EXCEPT !.rn = x] : x \in Nonces \cup Tokens} ELSE {})
  \cup {[r EXCEPT !.life = x] : x \in Lives}
  \cup {[r EXCEPT !.selfinfo = TRUE]}
NearSet(s) == {m \in UNION {Mutations(r) : r \in AuthSet(s)} : ~Authorised(s, m)}

RE(S) == RandomElement(S)
SubRand(i, muts) ==
  [op |-> "Submit", api |-> RE({"authorize", "fetch"}), mut |-> RE(muts), nb |-> RE(GridNB), na |-> RE(GridNA),
   sknb |-> RE(SkewNB), skna |-> RE(SkewNA), k |-> RE(CertKeys), e |-> RE(EncKeys), n |-> RE(Nonces), prime |-> RE(BOOLEAN)]
GenRand(i, signers) ==
  [op |-> "GenCerts", k |-> RE(CertKeys \cup {"kx"}), nid |-> RE(NodeIds \cup {NONE}), order |-> RE(Perms(CertKeys)),
   nsig |-> RE(signers), hasState |-> RE(BOOLEAN), ssig |-> RE(signers \cup {NONE}), skip |-> RE({FALSE, FALSE, FALSE, TRUE}),
   reuse |-> RE({FALSE, FALSE, TRUE}),
   lg |-> RE({"none", "none", "trace"})]       \* the caller's options carry a logger at trace level (must not matter)
RotRand(i, srcs, nonces) ==
  [op |-> "Rotate", k |-> RE(CertKeys), nid |-> RE(NodeIds \cup {NONE}), order |-> RE(Perms(CertKeys)),
   src |-> RE(srcs), which |-> RE({"cur", "cur", "cur", "prev", "prev", "gone"}), gsrv |-> 0, genc |-> NONE, k2 |-> RE(CertKeys), e2 |-> RE(EncKeys), n2 |-> RE(nonces),
   ostate |-> RE(StateOrNone), lf |-> RE({FALSE, FALSE, FALSE, TRUE}),
   iid |-> RE({FALSE, FALSE, TRUE}), win |-> RE({"ok", "ok", "ok", "exp2m", "fut2m"})]     \* the inner signed bundle carries an id field other than its key id (must not matter)

OpsOf(cls, s) ==
  CASE cls = "Authorize"  -> AuthorizeOps
    [] cls = "Token"      -> TokenOps
    [] cls = "Age"        -> AgeOps
    [] cls = "Remove"     -> {o \in RemoveOps : s.nodes[o.k].present}
    [] cls = "Regw"       -> RegwOps
    [] cls = "Nid"        -> {o \in NidOps : s.nodes[o.k].present}
    [] cls = "Prev"       -> {o \in PrevOps : Apply(s, o).res # "skip"}
    [] cls = "KeyKind"    -> {o \in KeyKindOps : s.nodes[o.k].present}
    [] cls = "PrevCert"   -> {[op |-> "SetPrevCert", k |-> k, from |-> f] : k \in Present(s), f \in CertKeys}
    [] cls = "Strip"      -> {o \in StripOps : s.nodes[o.k].present}
    [] cls = "Tamper"     -> {o \in TamperOps : Apply(s, o).res # "skip"}
    [] cls = "FetchAuth"  -> AuthSet(s)
    \* a token fetch made with the skip-storage option
    [] cls = "FetchSkip"  -> {Merge([TokFetch(k, e, t) EXCEPT !.life = "default"], [skipst |-> TRUE]) :
                                k \in {RandomElement(CertKeys)}, e \in {RandomElement(EncKeys)}, t \in {x \in Tokens : Live(s.tokens[x])}}
    \* info sealed with the storage wrapper
    [] cls = "FetchSW"    -> {Merge(Merge([op |-> "Fetch", k |-> k, e |-> RandomElement(EncKeys), n |-> n, life |-> "default", selfinfo |-> FALSE],
                                            [ww |-> "SW", wk |-> k, wn |-> n]), NoRewrap) : k \in {RandomElement(CertKeys)}, n \in {RandomElement(Nonces)}}
    [] cls = "FetchRace"  -> {[op |-> "FetchRace", t |-> t, ka |-> RandomElement(CertKeys), kb |-> RandomElement(CertKeys), e |-> RandomElement(EncKeys),
                               be |-> IF CfgRmErr THEN "file" ELSE "inmem"] : t \in {x \in Tokens : Live(s.tokens[x])}}
    [] cls = "FetchNear"  -> NearSet(s)
    [] cls = "FetchAny"   -> {Merge(Merge([op |-> "Fetch", k |-> RandomElement(CertKeys), e |-> RandomElement(EncKeys),
                                            n |-> RandomElement(AllNonces), life |-> RandomElement(Lives), selfinfo |-> RandomElement({FALSE, FALSE, TRUE})],
                                            wc[1]), wc[2]) : wc \in {RandomElement(WrapCombos)}}
    \* relay (optional field, only ever put on requests that are NOT valid): the request also carries registration info
    \* re-wrapped by a registered intermediate for its key and nonce - the relayed shape does not make it valid
    \* during (optional field, likewise only on requests that are NOT valid): a valid authorisation of the same node is in
    \* flight, held up at its storage write, while the request is submitted - every call validates its own request
    [] cls = "Submit"     -> {IF ~ValidReq(v) /\ v.api = "fetch" /\ RandomElement(1..2) = 1 THEN Merge(v, [relay |-> TRUE])
                              ELSE IF ~ValidReq(v) /\ v.api = "authorize" /\ RandomElement(1..2) = 1 THEN Merge(v, [during |-> TRUE]) ELSE v :
                                v \in {v \in {SubRand(i, Muts) : i \in 1..6} : v \in SubmitOps}}
    [] cls = "SubmitWin"  -> {v \in {SubRand(i, {"none"}) : i \in 1..6} : v \in SubmitOps}
    [] cls = "CreateRequest" -> {[op |-> "CreateRequest", k |-> "fresh", e |-> "fresh", n |-> "fresh", s |-> NONE,
                                  flow |-> RandomElement({"plain", "plain", "wrap"}), again |-> RandomElement({FALSE, FALSE, TRUE})]}
    [] cls = "GenCerts"   -> {GenRand(i, CertKeys \cup {NONE, "kx"}) : i \in 1..3}
    [] cls = "GenNear"    -> IF Present(s) = {} THEN {} ELSE
                               {[GenRand(i, Present(s)) EXCEPT !.skip = FALSE] : i \in 1..3}
                               \cup {LET q == GenRand(i, Present(s)) IN [q EXCEPT !.skip = FALSE, !.ssig = q.nsig, !.k = q.nsig] : i \in 4..5}
    [] cls = "Rotate"     -> {RotRand(i, CertKeys \cup {"rand"}, Nonces \cup TokNonces) : i \in 1..3}
    [] cls = "RotNear"    -> IF Present(s) = {} THEN {} ELSE
                               {RotRand(i, Present(s), Nonces \cup {"tg"}) : i \in 1..3}
                               \cup {LET q == RotRand(i, Present(s), Nonces) IN [q EXCEPT !.k = q.src, !.which = "cur"] : i \in 4..6}

Good(cls, s) == {o \in OpsOf(cls, s) : Apply(s, o).res # "skip"}

Init == st = InitState([sw |-> CfgSW, nidl |-> CfgNidl, so |-> CfgSO, rmerr |-> CfgRmErr]) /\ hist = <<>> /\ done = FALSE

Step ==
  /\ Len(hist) < Depth
  /\ \E c0 \in {RandomElement(Classes)} :
      \E S0 \in {Good(c0, st)} :                                 \* each set is evaluated once (random draws inside)
       \E S \in {IF S0 # {} THEN S0 ELSE Good(Fallback, st)} :
         /\ \E o \in {RandomElement(S)} :
              LET out == Apply(st, o) IN
                /\ out.res # "skip"
                /\ st' = out.st
                /\ hist' = Append(hist, o)
                /\ done' = FALSE

Emit ==
  /\ Len(hist) = Depth /\ ~done
  /\ PrintT(<<"BEH", ToJson(hist)>>)
  /\ done' = TRUE /\ UNCHANGED <<st, hist>>

Next == Step \/ Emit
Spec == Init /\ [][Next]_vars
=============================================================================
