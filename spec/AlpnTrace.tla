----------------------------- MODULE AlpnTrace -----------------------------
(* Judges recorded runs of the real BreakIntoNextProtos / CombineFromNextProtos *)
(* against the arithmetic of Alpn.tla at the real constants (Radix = 10,        *)
(* budget = 240 - len(prefix)) and the round-trip / no-crash clauses of C20.    *)
EXTENDS Alpn, Json
CONSTANTS TraceFile, Props
TraceLog == ndJsonDeserialize(TraceFile)
VARIABLES l, cnt
vars == <<l, cnt>>

Viols(e) ==
  IF e.op.op = "RT" THEN
    LET b == 240 - e.obs.plen
        want == (e.op.n + b - 1) \div b IN
    (IF e.obs.panic THEN {"panic"} ELSE {}) \cup
    (IF ~e.obs.panic /\ ~e.obs.rt THEN {"round-trip-differs"} ELSE {}) \cup
    (IF ~e.obs.panic /\ ~e.obs.rtForeign THEN {"round-trip-with-foreign-entries-differs"} ELSE {}) \cup
    (IF ~e.obs.panic /\ ~e.obs.allPrefixed THEN {"entry-without-prefix"} ELSE {}) \cup
    (IF ~e.obs.panic /\ e.obs.maxEntry > 255 THEN {"entry-longer-than-255"} ELSE {})
  ELSE IF e.op.op = "Mal" THEN (IF e.obs.panic THEN {"panic-on-malformed-entry"} ELSE {})
  ELSE {}

Drift(e) == e.op.op = "RT" /\ ~e.obs.panic /\ e.obs.count # ((e.op.n + (240 - e.obs.plen) - 1) \div (240 - e.obs.plen))

Init == l = 1 /\ cnt = [lines |-> 0, nontrivial |-> 0, drift |-> 0, viol |-> 0, unc |-> 0]
Step ==
  /\ l <= Len(TraceLog)
  /\ LET e == TraceLog[l] vs == Viols(e) IN
       /\ \A v \in vs : PrintT(<<"VIOL", "C20", v, e.tr, e.i>>)
       /\ (Drift(e) => PrintT(<<"DRIFT", e.tr, e.i, e.op.op, "count", "count", FALSE>>))
       /\ cnt' = [lines |-> cnt.lines + 1, nontrivial |-> cnt.nontrivial + (IF e.op.op = "RT" /\ e.obs.count > 1 THEN 1 ELSE 0),
                  drift |-> cnt.drift + (IF Drift(e) THEN 1 ELSE 0), viol |-> cnt.viol + Cardinality(vs), unc |-> 0]
       /\ l' = l + 1
Finish == l = Len(TraceLog) + 1 /\ PrintT(<<"DONE", cnt.lines, cnt.nontrivial, cnt.drift, cnt.viol, cnt.unc>>) /\ l' = l + 1 /\ UNCHANGED cnt
Next == Step \/ Finish
Spec == Init /\ [][Next]_vars
=============================================================================
