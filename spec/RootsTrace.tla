----------------------------- MODULE RootsTrace -----------------------------
(* Trace validation for root rotation (C08) and trust continuity (C09).      *)
(* Lines come from the real rotation.RotateRootCertificates /                *)
(* registration.AuthorizeNode under virtual time; instants are integers in a *)
(* per-trace fine unit.  The clock was read somewhere in [now0, now1]; a     *)
(* step is allowed when SOME instant of that bracket (widened by one unit)   *)
(* explains it, with tolerance = width of the bracket + 2.                   *)
EXTENDS Roots, Json

CONSTANTS TraceFile, Props

TraceLog == ndJsonDeserialize(TraceFile)

VARIABLES l, chains, lastRot, lastEnr, enrolled, cadOK, cnt

vars == <<l, chains, lastRot, lastEnr, enrolled, cadOK, cnt>>

Tol(e) == (e.now1 - e.now0) + 2
Instants(e) == (e.now0 - 1)..(e.now1 + 1)
Par(e) == [L |-> e.p.L, sknb |-> e.p.sknb, skna |-> e.p.skna]

\* ---- C08 clauses, each "for some admissible instant" ----
C08Clauses(e) ==
  \* with the skip-storage option nothing is stored by design: the clauses are judged on the RETURNED pair
  LET pre == e.pre  ret == e.ret  post == IF e.op.skip THEN e.ret ELSE e.post  re == e.op.reinit  p == Par(e)  tol == Tol(e)
      eff == IF re THEN Empty ELSE pre
  IN
  (IF post # ret THEN {"storage-differs-from-return"} ELSE {}) \cup

  (IF IsAbsent(post.cur) \/ IsAbsent(post.next) \/ post.cur.id = post.next.id \/ ~e.flags.wellformed \/ ~e.flags.reload \/ ~e.flags.derEqProto
      THEN {"not-two-wellformed-selfsigned-ca-roots"} ELSE {}) \cup
  (IF ~e.flags.labels THEN {"roots-not-labelled-current-and-next"} ELSE {}) \cup
  (IF ~\E n \in Instants(e) : post.cur.nb - tol <= n /\ n <= post.cur.na + tol THEN {"current-not-valid-now"} ELSE {}) \cup
  (IF ~\E n \in Instants(e) : TableOK(pre, post, re, n) THEN {"decision-table"} ELSE {}) \cup
  (IF (\E n \in Instants(e) : TableOK(pre, post, re, n)) /\ ~\E n \in Instants(e) : TableOK(pre, post, re, n) /\ WindowsOK(pre, post, re, n, p, tol)
      THEN {"minted-windows"} ELSE {}) \cup
  (IF (post # pre \/ Overlap(pre)) /\ ~(post.next.nb < post.cur.na) THEN {"next-does-not-begin-before-current-ends"} ELSE {}) \cup
  (IF (re \/ IsEmpty(pre)) /\ Span(p) > 4 * tol /\ ~(post.next.nb > post.cur.nb /\ post.next.na > post.cur.na)
      THEN {"from-empty-next-not-later-than-current"} ELSE {})

\* critical instants of [a, b] for the node-trust clause
Crit(a, b, ch) == {a, b} \cup {t \in UNION {{ch[i].nb - 1, ch[i].nb, ch[i].na, ch[i].na + 1} : i \in 1..Len(ch)} : a <= t /\ t <= b}

C09Clauses(e, ch, enr, cad) ==
  LET pre == e.pre  post == e.post  tol == Tol(e) IN
  (IF e.op.op = "Rotate" /\ e.res = "ok" /\ cad /\ ~\E n \in Instants(e) : NoReset(pre, post, n, tol)
      THEN {"trust-reset"} ELSE {}) \cup
  (IF e.op.op = "Rotate" /\ e.res = "ok" /\ cad /\ post # pre /\ ~IsEmpty(pre)
        /\ ~(Trusted(pre) \ Trusted(post) \subseteq {pre.cur.id})
      THEN {"root-dropped-before-successor-valid"} ELSE {}) \cup
  (IF enr /\ cad /\ ~e.flags.leafEqRoot THEN {"node-certificate-window-differs-from-root"} ELSE {}) \cup
  (IF enr /\ cad /\ \E t \in Crit(e.now0, e.now1, ch) :
         ~(NodeOK(ch, pre, t) \/ NodeOK(ch, post, t)
           \/ \E i \in 1..Len(ch) : ch[i].issuer \in Trusted(post) \cup Trusted(pre) /\ ch[i].nb - tol <= t /\ t <= ch[i].na + tol)
      THEN {"node-without-valid-trusted-chain"} ELSE {})

Init == l = 1 /\ chains = <<>> /\ lastRot = 0 /\ lastEnr = 0 /\ enrolled = FALSE /\ cadOK = FALSE
        /\ cnt = [lines |-> 0, nontrivial |-> 0, drift |-> 0, viol |-> 0, unc |-> 0]

Step ==
  /\ l <= Len(TraceLog)
  /\ LET e == TraceLog[l]
         first == e.i = 1
         ch0 == IF first THEN <<>> ELSE chains
         enr0 == IF first THEN FALSE ELSE enrolled
         cad0 == IF first THEN (e.p.R > 0) ELSE cadOK
         lr0 == IF first THEN e.now0 ELSE lastRot
         le0 == IF first THEN e.now0 ELSE lastEnr
         tol == Tol(e)
         isRot == e.op.op = "Rotate"
         isEnr == e.op.op = "Enroll" /\ e.res = "ok"
         \* a rotation that happens when the node's deadline has (nearly) arrived breaks the cadence premise
         cadRot == cad0 /\ (isRot /\ enr0 => e.now1 - le0 < e.p.N - tol)
         ch1 == IF isEnr THEN e.chains ELSE ch0
         enr1 == enr0 \/ isEnr
         lr1 == IF isRot THEN e.now1 ELSE lr0
         le1 == IF isEnr THEN e.now1 ELSE le0
         cad1 == cadRot /\ (e.now1 - lr1 <= e.p.R + tol) /\ (enr1 => e.now1 - le1 <= e.p.N)
         judged == ~e.unc
         v08 == IF "C08" \in Props /\ judged /\ isRot /\ e.res = "ok" THEN C08Clauses(e) ELSE {}
         v09 == IF "C09" \in Props /\ judged THEN C09Clauses(e, ch1, enr1, cad1) ELSE {}
         pdrift == isRot /\ judged /\
                   ~\E n \in Instants(e) : LET r == RotateF(e.pre, n, Par(e), e.op.reinit, 0, e.op.fault) IN
                        /\ (r.ok <=> e.res = "ok")
                        /\ (~r.ok /\ ~HalfMissing(e.pre) => IsEmpty(e.post) = IsEmpty(r.s))
                        /\ (r.ok => (IF e.op.reinit THEN "both" ELSE Observed(e.pre, IF e.op.skip THEN e.ret ELSE e.post)) = r.d)
     IN /\ \A c \in v08 : PrintT(<<"VIOL", "C08", c, e.tr, e.i>>)
        /\ \A c \in v09 : PrintT(<<"VIOL", "C09", c, e.tr, e.i>>)
        /\ (pdrift => PrintT(<<"DRIFT", e.tr, e.i, e.op.op, "decision", e.res, FALSE>>))
        /\ chains' = ch1 /\ enrolled' = enr1 /\ lastRot' = lr1 /\ lastEnr' = le1 /\ cadOK' = cad1
        /\ cnt' = [lines |-> cnt.lines + 1,
                   nontrivial |-> cnt.nontrivial + (IF (isRot /\ e.post # e.pre) \/ (enr1 /\ cad1) THEN 1 ELSE 0),
                   drift |-> cnt.drift + (IF pdrift THEN 1 ELSE 0),
                   viol |-> cnt.viol + Cardinality(v08) + Cardinality(v09),
                   unc |-> cnt.unc + (IF e.unc THEN 1 ELSE 0)]
        /\ l' = l + 1

Finish ==
  /\ l = Len(TraceLog) + 1
  /\ PrintT(<<"DONE", cnt.lines, cnt.nontrivial, cnt.drift, cnt.viol, cnt.unc>>)
  /\ l' = l + 1 /\ UNCHANGED <<chains, lastRot, lastEnr, enrolled, cadOK, cnt>>

Next == Step \/ Finish
Spec == Init /\ [][Next]_vars
=============================================================================
