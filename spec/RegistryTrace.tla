---------------------------- MODULE RegistryTrace ----------------------------
(* Trace validation for the registry family.  Each line of the ndjson trace  *)
(* was recorded from the REAL library: abstract operation, observed result,  *)
(* projected storage before and after.  Every line is judged twice:          *)
(*   - by the property predicates of Registry.tla (a failure is a VIOL line, *)
(*     the only thing that makes a check exit 1), and                        *)
(*   - against the implementation-shaped prediction Apply(pre, op) (a        *)
(*     mismatch is a DRIFT line: reported, never an alarm).                  *)
(* The spec follows the logged post-state, so one bad step does not hide the *)
(* rest of the trace.                                                        *)
EXTENDS Registry, Json

CONSTANTS TraceFile, Props

TraceLog == ndJsonDeserialize(TraceFile)

VARIABLES l, enr, cnt

vars == <<l, enr, cnt>>

ToSt(p, c) ==
  [nodes  |-> [k \in CertKeys |-> p.nodes[k]],
   tokens |-> [t \in Tokens |-> p.tokens[t]],
   regw   |-> p.regw,
   gen    |-> p.gen,
   cfg    |-> [sw |-> c.sw, nidl |-> c.nidl, so |-> c.so, rmerr |-> c.rmerr]]

IsTokenEnrol(e) == e.op.op = "Fetch" /\ e.op.n \in Tokens /\ ~HasWrapped(e.op) /\ ~HasRewrapped(e.op) /\ e.res = "issued"

SeqToSet(s) == {s[i] : i \in 1..Len(s)}


\* reply-binding clause of C10, on names: the reply must open with the authenticating record's current key
\* and with nothing that denotes a different key
ReplyOK(pre, q, opens) ==
  \E c \in SeqToSet(RotOpeners(pre, q)) :
     /\ ("cur:" \o c) \in SeqToSet(opens)
     /\ \A nm \in SeqToSet(opens) :
          \/ nm = "cur:" \o c
          \/ \E x \in CertKeys : nm = "prev:" \o x /\ KeyTriple(pre, x, "prev") = KeyTriple(pre, c, "cur")

Viols(e, pre, post, enrNext) ==
  (IF "C01" \in Props /\ e.op.op = "Fetch" THEN
     (IF e.res = "issued" /\ ~Authorised(pre, e.op) THEN {<<"C01", "issued-unauthorised">>} ELSE {}) \cup
     (IF ~Authorised(pre, e.op) /\ ~(Present(post) \subseteq Present(pre)) THEN {<<"C01", "rejected-but-record-created">>} ELSE {}) \cup
     (IF ~Authorised(pre, e.op) /\ e.res \notin {"empty", "error"} THEN {<<"C01", "unauthorised-not-refused">>} ELSE {}) \cup
     (IF e.res = "issued" /\ ~(e.obs.opens /\ e.obs.echo) THEN {<<"C01", "issued-response-not-bound-to-request">>} ELSE {})
   ELSE {}) \cup
  (IF "C06" \in Props /\ e.op.op = "Fetch" THEN
     (IF ~AllowedC06(pre, e.op, e.res, post) THEN {<<"C06", "token-step">>} ELSE {}) \cup
     (IF \E t \in Tokens : Cardinality(enrNext[t]) > 1 THEN {<<"C06", "token-enrolled-two-nodes">>} ELSE {})
   ELSE {}) \cup
  \* one activation token authorises ONE fetch: the second of two overlapping fetches presents a token that is used up
  (IF "C01" \in Props /\ e.op.op = "FetchRace" /\ e.res = "both"
     THEN {<<"C01", "issued-unauthorised-to-the-second-of-two-overlapping-token-fetches">>} ELSE {}) \cup
  (IF "C01" \in Props /\ e.op.op = "FetchRace" /\ e.res \in {"onlyB", "none"} /\ post.nodes[e.op.ka].present
     THEN {<<"C01", "rejected-but-record-created">>} ELSE {}) \cup
  (IF "C01" \in Props /\ e.op.op = "FetchRace" /\ e.res \in {"onlyA", "none"} /\ post.nodes[e.op.kb].present
     THEN {<<"C01", "rejected-but-record-created">>} ELSE {}) \cup
  (IF "C06" \in Props /\ e.op.op = "FetchRace" /\ (e.res = "both" \/ (post.nodes[e.op.ka].present /\ post.nodes[e.op.kb].present))
     THEN {<<"C06", "token-enrolled-two-nodes-by-overlapping-fetches">>} ELSE {}) \cup
  (IF "C06" \in Props /\ e.op.op = "CreateToken" /\ e.res = "ok" /\ e.obs.reconstructible
     THEN {<<"C06", "stored-token-record-suffices-to-reconstruct-the-token">>} ELSE {}) \cup
  (IF "C03" \in Props /\ e.op.op = "Submit" THEN
     (IF ~ValidReq(e.op) /\ e.res # "error" THEN {<<"C03", "invalid-request-processed">>} ELSE {}) \cup
     (IF ~ValidReq(e.op) /\ e.writes # 0 THEN {<<"C03", "invalid-request-wrote-storage">>} ELSE {}) \cup
     (IF ~ValidReq(e.op) /\ post.nodes # pre.nodes THEN {<<"C03", "invalid-request-changed-records">>} ELSE {})
   ELSE {}) \cup
  (IF "C03" \in Props /\ e.op.op = "CreateRequest" THEN
     (IF ~e.obs.nbWithin THEN {<<"C03", "created-request-not-valid-from-creation">>} ELSE {}) \cup
     (IF e.obs.lifeSec # 86400 THEN {<<"C03", "created-request-lifetime-not-documented-24h">>} ELSE {}) \cup
     (IF e.res # "ok" THEN {<<"C03", "fresh-honest-request-refused">>} ELSE {})
   ELSE {}) \cup
  \* the inner request of a rotation is an enrolment request like any other: outside its window (configured skews) it is
  \* refused before anything is decided or written
  (IF {"C03", "C10"} \cap Props # {} /\ e.op.op = "Rotate" /\ e.op.win # "ok" /\ (e.res = "rotated" \/ post.nodes # pre.nodes)
     THEN {<<(IF "C10" \in Props THEN "C10" ELSE "C03"), "rotation-with-inner-request-outside-its-window-processed">>} ELSE {}) \cup
  (IF "C05" \in Props /\ e.op.op = "GenCerts" THEN
     (IF e.res \in {"certs", "certs+state"} /\ ~(e.op.skip \/ GenOK(pre, e.op)) THEN {<<"C05", "certs-without-verified-signature">>} ELSE {}) \cup
     (IF ~e.op.skip /\ ~GenOK(pre, e.op) /\ e.res # "error" THEN {<<"C05", "unverified-not-refused">>} ELSE {}) \cup
     (IF e.res = "error" /\ e.obs.leak THEN {<<"C05", "error-with-response">>} ELSE {})
   ELSE {}) \cup
  (IF "C10" \in Props /\ e.op.op = "Rotate" THEN
     (IF ~AllowedC10(pre, e.op, e.res, post) THEN {<<"C10", "rotation-step">>} ELSE {}) \cup
     (IF e.res = "rotated" /\ ~ReplyOK(pre, e.op, e.obs.opens) THEN {<<"C10", "reply-not-bound-to-current-key">>} ELSE {}) \cup
     (IF e.res = "rotated" /\ ~(e.obs.innerOpens = <<e.op.e2>> /\ e.obs.echo) THEN {<<"C10", "inner-credentials-not-bound-to-new-key">>} ELSE {})
   ELSE {})

NonTrivial(e, pre) ==
  CASE e.op.op = "Fetch" -> Authorised(pre, e.op) \/ e.res = "issued"
    [] e.op.op = "Submit" -> TRUE
    [] e.op.op = "CreateRequest" -> TRUE
    [] e.op.op = "GenCerts" -> ~e.op.skip
    [] e.op.op = "Rotate" -> e.op.src # "rand"
    [] OTHER -> FALSE

Init == l = 1 /\ enr = [t \in Tokens |-> {}] /\ cnt = [lines |-> 0, nontrivial |-> 0, drift |-> 0, viol |-> 0, unc |-> 0]

Step ==
  /\ l <= Len(TraceLog)
  /\ LET e == TraceLog[l]
         pre == ToSt(e.pre, e.cfg)
         post == ToSt(e.post, e.cfg)
         enr0 == IF e.i = 1 THEN [t \in Tokens |-> {}] ELSE enr
         enr1 == IF IsTokenEnrol(e) THEN [enr0 EXCEPT ![e.op.n] = @ \cup {e.op.k}] ELSE enr0
         judged == ~e.unc /\ e.res # "skip"
         vs == IF judged THEN Viols(e, pre, post, enr1) ELSE {}
         pred == Apply(pre, e.op)
         drift == judged /\ (pred.res # e.res \/ pred.st # post)
     IN /\ \A v \in vs : PrintT(<<"VIOL", v[1], v[2], e.tr, e.i>>)
        /\ (drift => PrintT(<<"DRIFT", e.tr, e.i, e.op.op, pred.res, e.res, pred.st = post>>))
        /\ (e.res = "panic" => PrintT(<<"PANIC", e.tr, e.i, e.op.op>>))
        /\ enr' = enr1
        /\ cnt' = [lines |-> cnt.lines + 1,
                   nontrivial |-> cnt.nontrivial + (IF judged /\ NonTrivial(e, pre) THEN 1 ELSE 0),
                   drift |-> cnt.drift + (IF drift THEN 1 ELSE 0),
                   viol |-> cnt.viol + Cardinality(vs),
                   unc |-> cnt.unc + (IF e.unc THEN 1 ELSE 0)]
        /\ l' = l + 1

Finish ==
  /\ l = Len(TraceLog) + 1
  /\ PrintT(<<"DONE", cnt.lines, cnt.nontrivial, cnt.drift, cnt.viol, cnt.unc>>)
  /\ l' = l + 1 /\ UNCHANGED <<enr, cnt>>

Next == Step \/ Finish
Spec == Init /\ [][Next]_vars
=============================================================================
