------------------------------ MODULE SealGen ------------------------------
EXTENDS Seal, Json
CONSTANT Depth
VARIABLES hist, done
vars == <<hist, done>>
RE(S) == RandomElement(S)
Msgs == {"fetchreq", "fetchresp", "creds", "tiny", "reginfo", "empty"}   \* "empty": a message whose encoding is zero bytes long
Sides == {"node", "server"}
Tampers == {"none", "none", "flip", "trunc", "random", "short", "nokeyinfo"}
Other(S, x) == RE(S \ {x})
Near(s, n) == LET f == RE({"e", "g", "k"}) IN
              IF f = "e" THEN [s EXCEPT !.e = Other(NodeKeys, s.e)]
              ELSE IF f = "g" THEN [s EXCEPT !.g = Other(ServerKeys, s.g)] ELSE [s EXCEPT !.k = Other(KeyIds, s.k)]
Crypt(n) ==
  LET s == RE(Pairs)
      cls == RE({"cur", "prev", "nearcur", "nearprev", "rand"})
      rc == IF cls = "cur" THEN s ELSE IF cls = "nearcur" THEN Near(s, n) ELSE RE(Pairs)
      rp == IF cls = "prev" THEN s ELSE IF cls = "nearprev" THEN Near(s, n) ELSE RE(Pairs \cup {NoPair})
  IN [op |-> "Crypt", msg |-> RE(Msgs), sside |-> RE(Sides), rside |-> RE(Sides), s |-> s, rcur |-> rc, rprev |-> rp,
      tamper |-> RE({"none", "none", "none", "flip", "trunc", "random", "short", "nokeyinfo"}),
      \* how the sender's / receiver's record is filed (key id of its certificate key, an application id, none): must not matter
      sid |-> RE({"keyid", "custom", "empty"}), rid |-> RE({"keyid", "custom", "empty"}),
      dirty |-> RE(BOOLEAN),
      rstore |-> RE({FALSE, FALSE, TRUE}),     \* the receiver's record was stored with a storage wrapper and loaded back before use
      retain |-> RE({FALSE, FALSE, TRUE})]     \* key sources that keep and hand out the same key slices; a first message was exchanged before        \* the receiver decrypts into a message value that already holds other content
SetToSeq(S) == CHOOSE q \in [1..Cardinality(S) -> S] : \A i, j \in 1..Cardinality(S) : i # j => q[i] # q[j]
Rec(n) == LET t == RE(RecTypes) IN
          [op |-> "Rec", t |-> t, present |-> SetToSeq(RE(Presents(t))), wrapper |-> RE({TRUE, TRUE, FALSE}), withState |-> RE(BOOLEAN),
           rot |-> RE({FALSE, FALSE, TRUE}),
           longNonce |-> RE(BOOLEAN),
           rekey |-> RE({FALSE, TRUE})]           \* node records: the wrapper is re-keyed under the same key id and the record stored again             \* node credentials: the nonce is a decoded activation token (not 32 bytes)      \* the wrapper's encrypting key is rotated between store and load (old values still open)
Flow(n) == [op |-> "Flow", name |-> RE({"authorize", "token", "rotate", "rotateNamed", "dial", "dialtoken", "tokenRefused"}), withState |-> RE(BOOLEAN)]
Init == hist = <<>> /\ done = FALSE
Step == /\ Len(hist) < Depth
        /\ \E c \in {RE({"Crypt", "Crypt", "Crypt", "Rec", "Flow"})} :
             hist' = Append(hist, IF c = "Crypt" THEN Crypt(Len(hist)) ELSE IF c = "Rec" THEN Rec(Len(hist)) ELSE Flow(Len(hist)))
        /\ done' = FALSE
Emit == Len(hist) = Depth /\ ~done /\ PrintT(<<"BEH", ToJson(hist)>>) /\ done' = TRUE /\ UNCHANGED hist
Next == Step \/ Emit
Spec == Init /\ [][Next]_vars
=============================================================================
