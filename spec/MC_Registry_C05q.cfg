SPECIFICATION Spec
CONSTANTS
  CertKeys = {"k1","k2","k3"}
  EncKeys = {"e1"}
  Nonces = {"n1"}
  Tokens = {}
  AppStates = {}
  NodeIds = {"N1"}
  Enabled = {"Authorize","Remove","Nid","KeyKind"}
  MaxGen = 3
  CfgSW = FALSE
  CfgNidl = TRUE
  CfgSO = FALSE
  CfgRmErr = FALSE
INVARIANTS InvC05
CHECK_DEADLOCK FALSE
