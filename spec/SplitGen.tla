------------------------------ MODULE SplitGen ------------------------------
EXTENDS Split, Json
CONSTANT Depth
VARIABLES cfg, hist, done
vars == <<cfg, hist, done>>
RE(S) == RandomElement(S)
SetToSeq(S) == CHOOSE s \in [1..Cardinality(S) -> S] : \A i, j \in 1..Cardinality(S) : i # j => s[i] # s[j]
\* (a zero-argument definition would be evaluated once by TLC: the random draws take the step number)
Init == /\ cfg \in Configs
        /\ hist = <<[op |-> "Config", reg |-> SetToSeq(cfg.reg), native |-> SetToSeq(cfg.native)]>> /\ done = FALSE
RandClient(n) == [op |-> "Client", kind |-> RE({"node", "node", "nodeAfter", "nodeBefore", "base", "base", "fetch", "rogue"}), extras |-> RE(ExtrasLists), st |-> RE({"none", "none", "big"})]
RandOp(n) == IF cfg.reg # {} /\ RE(1..5) = 1 THEN [op |-> "Lookup", name |-> RE(cfg.reg)] ELSE RandClient(n)
Step == /\ Len(hist) < Depth
        /\ hist' = Append(hist, IF Len(hist) = Depth - 1 THEN [op |-> "CloseBase"] ELSE RandOp(Len(hist)))
        /\ UNCHANGED cfg /\ done' = FALSE
Emit == Len(hist) = Depth /\ ~done /\ PrintT(<<"BEH", ToJson(hist)>>) /\ done' = TRUE /\ UNCHANGED <<cfg, hist>>
Next == Step \/ Emit
Spec == Init /\ [][Next]_vars
=============================================================================
