----------------------------- MODULE FaultsTrace -----------------------------
EXTENDS Faults, Json
CONSTANTS TraceFile, Props
TraceLog == ndJsonDeserialize(TraceFile)
VARIABLES l, cnt
vars == <<l, cnt>>
Viols(e) ==
  LET o == e.obs IN
  (IF e.res = "panic" THEN {"panic"} ELSE {}) \cup
  (IF e.res = "error" /\ o.handed THEN {"error-but-result-handed-out"} ELSE {}) \cup
  (IF e.res = "ok" /\ o.handed /\ ~o.persisted THEN {"success-not-reflected-in-storage"} ELSE {}) \cup
  (IF o.recordCreated /\ o.tokenUsable THEN {"token-still-usable-after-creating-a-record"} ELSE {}) \cup
  (IF e.res = "error" /\ o.othersChanged THEN {"failed-call-changed-another-record"} ELSE {})
\* drift: the observed operation sequence / outcome differs from the model's
Drift(e) == e.op.flow \in FlowNames /\ e.op.pos <= Len(Flows[e.op.flow]) /\
            (LET r == Run(e.op.flow, e.op.pos, e.op.kind) IN r.res # e.res \/ e.obs.nops # Len(Flows[e.op.flow]))
Init == l = 1 /\ cnt = [lines |-> 0, nontrivial |-> 0, drift |-> 0, viol |-> 0, unc |-> 0]
Step ==
  /\ l <= Len(TraceLog)
  /\ LET e == TraceLog[l] vs == IF e.res \in {"setup-error", "skip"} THEN {} ELSE Viols(e) d == e.res \notin {"setup-error", "skip"} /\ Drift(e) IN
       /\ \A v \in vs : PrintT(<<"VIOL", "C13", v, e.tr, e.i>>)
       /\ (d => PrintT(<<"DRIFT", e.tr, e.i, e.op.flow, "model", e.res, FALSE>>))
       /\ cnt' = [lines |-> cnt.lines + 1, nontrivial |-> cnt.nontrivial + (IF e.op.pos > 0 /\ e.res # "skip" THEN 1 ELSE 0),
                  drift |-> cnt.drift + (IF d THEN 1 ELSE 0), viol |-> cnt.viol + Cardinality(vs), unc |-> 0]
       /\ l' = l + 1
Finish == l = Len(TraceLog) + 1 /\ PrintT(<<"DONE", cnt.lines, cnt.nontrivial, cnt.drift, cnt.viol, cnt.unc>>) /\ l' = l + 1 /\ UNCHANGED cnt
Next == Step \/ Finish
Spec == Init /\ [][Next]_vars
=============================================================================
