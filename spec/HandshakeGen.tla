---------------------------- MODULE HandshakeGen ----------------------------
(* Behaviour generator for the handshake family (history variable only here) *)
EXTENDS Handshake, Json

CONSTANTS Depth, Classes, CfgNidl, CfgBase

VARIABLES st, hist, done
vars == <<st, hist, done>>

RE(S) == RandomElement(S)
Enrolled(s) == {k \in CertKeys : s.cert[k] # "none"}

RandClient(i) ==
  [op |-> "Connect", kind |-> "auth", k |-> RE(CertKeys), ck |-> RE(CertKeys), chain |-> RE({"b0", "b0", "b1", "foreign", "self", "selfNoSan", "leadOwn"}),
   priv |-> RE({TRUE, TRUE, FALSE}), nsig |-> RE(Signers), stt |-> RE({NONE, "ok", "forged", "unsigned"}), skip |-> RE(BOOLEAN),
   nid |-> RE({NONE, "own", "other", "bogus"}), pref |-> RE({"cur", "next", "garbage", NONE}), cn |-> RE(BOOLEAN)]

\* the honest client of identity k, then one capability changed
\* xp: the client also offers application protocol names, placed in the middle (as the library's dialer does), after the
\* certificate preference, before the library's chunks, or on both sides - every order is legitimate
Honest(k) == [op |-> "Connect", kind |-> "auth", k |-> k, ck |-> k, chain |-> "b0", priv |-> TRUE, nsig |-> k, stt |-> RE({NONE, "ok"}),
              skip |-> FALSE, nid |-> RE({NONE, "own"}), pref |-> RE({"cur", NONE}), cn |-> FALSE,
              xp |-> RE({NONE, NONE, "mid", "afterPref", "before", "split"})]
Mutate(c) ==
  {[c EXCEPT !.priv = FALSE], [c EXCEPT !.skip = TRUE], [c EXCEPT !.cn = TRUE], [c EXCEPT !.nsig = "kx"], [c EXCEPT !.nsig = NONE],
   [c EXCEPT !.stt = "forged"], [c EXCEPT !.stt = "unsigned"], [c EXCEPT !.chain = "foreign"], [c EXCEPT !.chain = "self"], [c EXCEPT !.chain = "selfNoSan"], [c EXCEPT !.chain = "leadOwn"],
   [c EXCEPT !.chain = "b1"], [c EXCEPT !.pref = "garbage"], [c EXCEPT !.pref = "next"], [c EXCEPT !.nid = "other"],
   [c EXCEPT !.skip = TRUE, !.nsig = "kx"], [c EXCEPT !.skip = TRUE, !.stt = "forged"],
   [c EXCEPT !.nid = "bogus"], [c EXCEPT !.nid = "bogus", !.nsig = "kx"], [c EXCEPT !.nid = "bogus", !.nsig = NONE]}
  \* another identity's certificate presented with this identity's request, with and without a node-id hint
  \cup {[c EXCEPT !.ck = x, !.nid = n] : x \in CertKeys, n \in {"own", "bogus"}}
  \cup {[c EXCEPT !.k = x] : x \in CertKeys} \cup {[c EXCEPT !.ck = x] : x \in CertKeys}
  \cup {[c EXCEPT !.nsig = x] : x \in CertKeys} \cup {[c EXCEPT !.ck = x, !.nid = "other", !.nsig = x] : x \in CertKeys}

OpsOf(cls, s) ==
  CASE cls = "Enroll" -> {[op |-> "Enroll", k |-> k] : k \in {x \in CertKeys : s.cert[x] = "none"}}
    [] cls = "Remove" -> {[op |-> "Remove", k |-> k] : k \in {x \in CertKeys : s.rec[x]}}
    [] cls = "Reinit" -> IF \E k \in CertKeys : s.cert[k] = "fresh" THEN {[op |-> "Reinit"]} ELSE {}
    [] cls = "ConnectRand" -> {RandClient(i) : i \in 1..2}
    [] cls = "ConnectHonest" -> {Honest(k) : k \in Enrolled(s)}
    [] cls = "ConnectNear" -> UNION {Mutate(Honest(k)) : k \in Enrolled(s)}
    \* the identical request (same nonce, same signatures) of an honest client sent earlier in this history, sent again
    [] cls = "ConnectReplay" -> {[x \in DOMAIN hist[i] \cup {"replay"} |-> IF x = "replay" THEN TRUE ELSE hist[i][x]] :
                                   i \in {j \in 1..Len(hist) : hist[j].op = "Connect" /\ hist[j].kind = "auth" /\ hist[j].priv /\ hist[j].chain = "b0"}}
    [] cls = "ConnectMixed" -> {[c EXCEPT !.kind = RE({"mixedFA", "mixedFA", "mixedAF"})] :
                                  c \in UNION {{Honest(k), [Honest(k) EXCEPT !.chain = "self", !.ck = RE(CertKeys)], [Honest(k) EXCEPT !.priv = FALSE]} : k \in Enrolled(s)}}
    [] cls = "ConnectOther" -> {[op |-> "Connect", kind |-> RE({"base", "fetch"}), k |-> RE(CertKeys), ck |-> RE(CertKeys), chain |-> "self",
                                 priv |-> TRUE, nsig |-> NONE, stt |-> NONE, skip |-> FALSE, nid |-> NONE, pref |-> NONE, cn |-> FALSE]}
    [] cls = "Dial" -> {[op |-> "Dial", k |-> k, ex |-> RE({"none", "one", "many", "dups", "prefixlike", "containsPref"}),
                         stt |-> RE({"none", "empty", "nested", "large", "overriddenNil", "odd"})] : k \in Enrolled(s)}
    [] cls = "NewNode" -> {[op |-> "NewNode", k |-> k] : k \in {x \in CertKeys : s.cert[x] = "none"}}
    [] cls = "AuthorizePending" -> {[op |-> "AuthorizePending", k |-> k] : k \in {x \in CertKeys : s.cert[x] = "pending" /\ ~s.rec[x]}}
    [] cls = "DialPending" -> {[op |-> "Dial", k |-> k, ex |-> RE({"none", "one"}), stt |-> RE({"none", "nested"})] : k \in {x \in CertKeys : s.cert[x] = "pending"}}
    [] cls = "Rogue" -> {[op |-> "Rogue", k |-> k, kind |-> RE(RogueKinds), ex |-> RE({"none", "one", "many"})] : k \in {x \in CertKeys : s.cert[x] \in Issued}}
    [] cls = "RotateNode" -> {[op |-> "RotateNode", k |-> k] : k \in {x \in CertKeys : s.cert[x] \in Issued}}
    \* real-time steps of the root pair (behaviour configurations with second-scale root lifetimes only)
    [] cls = "WaitOverlap" -> {[op |-> "WaitOverlap"]}
    [] cls = "RotateWait" -> {[op |-> "RotateWait"]}
    [] cls = "ExpireWait" -> {[op |-> "ExpireWait"]}
    [] cls = "RemovePrev" -> {[op |-> "RemovePrev", k |-> k] : k \in {x \in CertKeys : s.prevrec[x]}}
    [] cls = "DialPrev" -> {[op |-> "DialPrev", k |-> k] : k \in {x \in CertKeys : s.hasprev[x]}}
    [] cls = "Malformed" -> {[op |-> "Malformed", cls |-> RE(MalClasses), pfx |-> RE(MalPrefixes)]}

Good(cls, s) == {o \in OpsOf(cls, s) : Apply(s, o).res # "skip"}

Init == st = InitState([nidl |-> CfgNidl, base |-> CfgBase]) /\ hist = <<>> /\ done = FALSE

Step ==
  /\ Len(hist) < Depth
  /\ \E c0 \in {RE(Classes)} :
      \E S0 \in {Good(c0, st)} :
       \E S \in {IF S0 # {} THEN S0 ELSE Good("Enroll", st) \cup Good("ConnectRand", st)} :
         \E o \in {RE(S)} :
            /\ st' = Apply(st, o).st
            /\ hist' = Append(hist, o)
            /\ done' = FALSE

Emit == Len(hist) = Depth /\ ~done /\ PrintT(<<"BEH", ToJson(hist)>>) /\ done' = TRUE /\ UNCHANGED <<st, hist>>
Next == Step \/ Emit
Spec == Init /\ [][Next]_vars
=============================================================================
