------------------------------- MODULE Roots -------------------------------
(***************************************************************************)
(* Root certificate rotation (rotation/roots.go) over integer time.        *)
(*                                                                         *)
(* A root is [id, nb, na] (identity = its key; validity window) or Absent. *)
(* Rotate is the code's decision (decideWhatToMake) followed by minting:   *)
(*   new current = [now + SkNB, now + L + SkNA]                            *)
(*   new next    = the same window shifted by half of the remaining life   *)
(*                 of the root that is (becomes) current.                  *)
(* Pure operators so that the exhaustive model (MC_Roots), the behaviour   *)
(* generator (RootsGen) and the trace specification (RootsTrace) share one *)
(* definition.  Time comparisons are those of the code: After/Before are   *)
(* strict.                                                                 *)
(***************************************************************************)
EXTENDS Integers, Sequences, FiniteSets, TLC

Absent == [id |-> 0, nb |-> 0, na |-> 0]
IsAbsent(r) == r.id = 0

\* stored record: both roots, or nothing ("empty"), or a half-missing record written by something else
Stored(cur, next) == [cur |-> cur, next |-> next]
Empty == Stored(Absent, Absent)
IsEmpty(s) == IsAbsent(s.cur) /\ IsAbsent(s.next)
HalfMissing(s) == IsAbsent(s.cur) # IsAbsent(s.next)

ValidAt(r, now) == ~IsAbsent(r) /\ r.nb <= now /\ now <= r.na

(***************************************************************************)
(* decideWhatToMake: result in {"both", "next-keep-cur", "next-promote",   *)
(* "none"}                                                                 *)
(***************************************************************************)
Decide(s, now) ==
  IF IsEmpty(s) \/ HalfMissing(s) THEN "both"
  ELSE IF s.cur.nb > now THEN "both"                              \* current not yet valid: start over
  ELSE IF s.cur.na < now THEN                                     \* current expired
       (IF s.next.nb < now /\ s.next.na > now THEN "next-promote" ELSE "both")
  ELSE IF s.next.na < now THEN "next-keep-cur"                    \* only next expired
  ELSE IF s.next.nb > now THEN "none"                             \* not time yet
  ELSE "next-promote"                                             \* both valid: rotate

Half(x) == IF x >= 0 THEN x \div 2 ELSE -((-x) \div 2)            \* Go's integer division truncates toward zero

MintCur(now, p, id) == [id |-> id, nb |-> now + p.sknb, na |-> now + p.L + p.skna]
MintNext(now, p, id, curNa) ==
  LET sh == Half(curNa - now) IN [id |-> id, nb |-> now + p.sknb + sh, na |-> now + p.L + p.skna + sh]

\* Rotate: returns [ok, s, minted, d]; ids for new roots are nid, nid+1
Rotate(s0, now, p, reinit, nid) ==
  LET s == IF reinit THEN Empty ELSE s0 IN
  IF HalfMissing(s) THEN [ok |-> FALSE, s |-> s, minted |-> 0, d |-> "error"]   \* load refuses a record with one root
  ELSE LET d == Decide(s, now) IN
    CASE d = "none" -> [ok |-> TRUE, s |-> s, minted |-> 0, d |-> d]
      [] d = "both" -> LET c == MintCur(now, p, nid) IN
                       [ok |-> TRUE, s |-> Stored(c, MintNext(now, p, nid + 1, c.na)), minted |-> 2, d |-> d]
      [] d = "next-keep-cur" -> [ok |-> TRUE, s |-> Stored(s.cur, MintNext(now, p, nid, s.cur.na)), minted |-> 1, d |-> d]
      [] d = "next-promote" -> [ok |-> TRUE, s |-> Stored(s.next, MintNext(now, p, nid, s.next.na)), minted |-> 1, d |-> d]

\* Rotate with a storage fault injected at the first Remove / Load / Store of the roots record ("none": no fault).
\* A call that reinitialises removes first; nothing is loaded again after a failed step, so what was already
\* removed stays removed.  A fault at an operation the call does not perform does not fire.
Faults == {"none", "remove", "load", "store"}
RotateF(s0, now, p, reinit, nid, fault) ==
  LET r == Rotate(s0, now, p, reinit, nid)
      after == IF reinit THEN Empty ELSE s0
      fail(x) == [ok |-> FALSE, s |-> x, minted |-> 0, d |-> "error"]
  IN IF fault = "remove" /\ reinit THEN fail(s0)
     ELSE IF fault = "load" THEN fail(after)
     ELSE IF fault = "store" /\ r.ok /\ r.d # "none" THEN fail(after)
     ELSE r

\* Rotate with the skip-storage option: the decision and the minted roots are those of Rotate, nothing is written - but a
\* reinitialisation still removes what was stored first.
RotateSkip(s0, now, p, reinit, nid) ==
  LET r == Rotate(s0, now, p, reinit, nid) IN [ok |-> r.ok, ret |-> r.s, s |-> IF reinit THEN Empty ELSE s0, minted |-> r.minted, d |-> r.d]

(***************************************************************************)
(* C08 predicates.  tol: timing tolerance of the observation (0 in the     *)
(* pure model).  pre/post are stored records; nowLo..nowHi brackets the    *)
(* instant(s) at which the call read the clock.                            *)
(***************************************************************************)
Near(a, b, tol) == a - b <= tol /\ b - a <= tol

Overlap(s) == ~IsAbsent(s.cur) /\ ~IsAbsent(s.next) /\ s.next.nb < s.cur.na

\* which roots of post are carried over from pre
Observed(pre, post) ==
  IF post = pre THEN "none"
  ELSE IF post.cur.id = pre.cur.id /\ ~IsAbsent(pre.cur) /\ post.next.id \notin {pre.cur.id, pre.next.id} THEN "next-keep-cur"
  ELSE IF post.cur.id = pre.next.id /\ ~IsAbsent(pre.next) /\ post.next.id \notin {pre.cur.id, pre.next.id} THEN "next-promote"
  ELSE IF {post.cur.id, post.next.id} \cap {pre.cur.id, pre.next.id} = {} THEN "both"
  ELSE "other"

\* The decision table AS THE PROPERTY STATES IT (in terms of validity, independently of Decide's
\* case order); at an exact tie of now with a window edge the statement does not choose, so the
\* set holds both neighbours.
TableSet(s, now) ==
  IF IsEmpty(s) \/ HalfMissing(s) THEN {"both"}                                   \* a root is missing
  ELSE LET curNotYet == s.cur.nb > now
           curExpired == s.cur.na < now
           nextValid == s.next.nb <= now /\ now <= s.next.na
           nextTie == s.next.nb = now \/ s.next.na = now
           nextExpired == s.next.na < now
           nextNotYet == s.next.nb > now
       IN IF curNotYet THEN {"both"}                                              \* current not yet valid
          ELSE IF curExpired THEN
               (IF nextValid THEN {"next-promote"} \cup (IF nextTie THEN {"both"} ELSE {})
                ELSE {"both"})                                                    \* both unusable
          ELSE \* current valid
               IF nextExpired THEN {"next-keep-cur"}                              \* next alone has expired
               ELSE IF nextNotYet THEN {"none"}                                   \* next not yet valid: change nothing
               ELSE {"next-promote"}                                              \* next has become valid

TableOK(pre, post, reinit, now) ==
  LET eff == IF reinit THEN Empty ELSE pre
      obs == IF reinit THEN (IF {post.cur.id, post.next.id} \cap {pre.cur.id, pre.next.id} = {} THEN "both" ELSE "other")
             ELSE Observed(pre, post)
  IN obs \in TableSet(eff, now)

WindowsOK(pre, post, reinit, now, p, tol) ==
  LET eff == IF reinit THEN Empty ELSE pre
      d == IF reinit THEN "both" ELSE Observed(pre, post)
      wantCur == MintCur(now, p, 0)
      wantNext == MintNext(now, p, 0, post.cur.na)
  IN /\ (d = "both" => Near(post.cur.nb, wantCur.nb, tol) /\ Near(post.cur.na, wantCur.na, tol))
     /\ (d # "none" => Near(post.next.nb, wantNext.nb, tol) /\ Near(post.next.na, wantNext.na, tol))
     /\ (d = "next-keep-cur" => post.cur = pre.cur)
     /\ (d = "next-promote" => post.cur = pre.next)

AllowedC08At(pre, post, ret, reinit, now, p, tol) ==
  /\ post = ret                                              \* storage and return value agree
  /\ ~IsAbsent(post.cur) /\ ~IsAbsent(post.next) /\ post.cur.id # post.next.id
  /\ post.cur.nb - tol <= now /\ now <= post.cur.na + tol    \* current valid now
  /\ TableOK(pre, post, reinit, now)
  /\ WindowsOK(pre, post, reinit, now, p, tol)
  \* overlap.  (Exact tie now = current's last instant: current "ends" at the very instant of the call, the half
  \* of its remaining life is zero and with a zero not-before skew the new next begins at that same instant; the
  \* statement leaves no room there, as in TableSet.)
  /\ ((post # pre \/ Overlap(pre)) /\ post.cur.na > now => post.next.nb < post.cur.na)
  /\ (((reinit \/ IsEmpty(pre)) /\ p.L + p.skna - p.sknb > 2 * tol) =>
         post.next.nb > post.cur.nb /\ post.next.na > post.cur.na)                   \* from empty storage

(***************************************************************************)
(* C09 predicates                                                          *)
(***************************************************************************)
Span(p) == p.L + p.skna - p.sknb
\* bound on the node's re-enrolment interval stated by the property
NodeBound(p, R) == ((Span(p) - R) \div 2) + p.sknb

Trusted(s) == {s.cur.id, s.next.id} \ {0}
\* a node's credentials: two chains, each [issuer, nb, na]
ChainOK(c, s, now) == c.issuer \in Trusted(s) /\ c.nb <= now /\ now <= c.na
NodeOK(chains, s, now) == \E i \in 1..Len(chains) : ChainOK(chains[i], s, now)
ChainsFrom(s) == <<[issuer |-> s.cur.id, nb |-> s.cur.nb, na |-> s.cur.na],
                   [issuer |-> s.next.id, nb |-> s.next.nb, na |-> s.next.na]>>

\* every change promotes the previous next; a dropped root's successor is valid
NoReset(pre, post, now, tol) ==
  (post # pre /\ ~IsEmpty(pre)) =>
      /\ post.cur = pre.next
      /\ post.cur.nb - tol <= now
=============================================================================
