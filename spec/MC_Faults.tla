------------------------------ MODULE MC_Faults ------------------------------
EXTENDS Faults
VARIABLE x
Init == x = 0
Next == UNCHANGED x
Spec == Init /\ [][Next]_x
InvC13 == \A f \in FlowNames : \A pos \in 0..Len(Flows[f]) : \A k \in Kinds : ModelOK(f, pos, k)
=============================================================================
