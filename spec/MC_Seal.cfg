SPECIFICATION Spec
CONSTANTS
  NodeKeys = {"e1","e2"}
  ServerKeys = {"g1","g2"}
  KeyIds = {"k1","k2","k0"}
INVARIANTS InvC11 InvBinding InvC12Shape
CHECK_DEADLOCK FALSE
