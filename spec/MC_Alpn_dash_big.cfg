SPECIFICATION Spec
CONSTANTS
  Budget = 4
  Radix = 4
  Decoder = "dash"
  MaxLen = 400
INVARIANTS InvRoundTrip InvForeign InvPrefixAndCount
CHECK_DEADLOCK FALSE
