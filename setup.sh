#!/bin/sh
# Offline setup: verifies the pre-installed tools and warms the Go build cache.
# Nothing built here depends on the contents of /repo at check time: every check
# rebuilds the harness against the current working tree.
set -e
cd "$(dirname "$0")"
command -v java >/dev/null || { echo "java missing"; exit 1; }
command -v go >/dev/null || { echo "go missing"; exit 1; }
test -f /opt/veriftools/tla/tla2tools.jar || { echo "tla2tools missing"; exit 1; }
mkdir -p out evidence
d=$(mktemp -d)
./run/build_harness.sh "$d" >/dev/null 2>&1 || { echo "harness build failed"; ./run/build_harness.sh "$d"; rm -rf "$d"; exit 1; }
rm -rf "$d"
echo "setup ok"
