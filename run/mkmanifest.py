#!/usr/bin/env python3
"""Regenerates /verif/MANIFEST.json from the table below (single source of truth for the interface)."""
import json
import os

HERE = os.path.dirname(os.path.dirname(os.path.abspath(__file__)))

REG_NOTE = ("Trusted: Go crypto (Ed25519, X25519, AES-GCM), protobuf, TLC. The exhaustive TLC result is about spec/Registry.tla within the "
            "stated constants; it transfers to the code through traces recorded from the real library and validated by TLC "
            "(drift must be 0 on the unchanged tree).")

CHECKS = {
    "C01": dict(engine="Registry", design="§4 C01",
                text="TLC checks exhaustively (bounded constants) that in every reachable registry state every well-signed fetch request of the universe gets an outcome allowed by C01; TLC-generated histories (authorised, one-field-mutated and arbitrary requests, wrapped and re-wrapped) are replayed on the real registration package and every recorded step is judged by the same predicate in RegistryTrace.tla.",
                note=REG_NOTE,
                technique="TLA+ spec (Registry.tla) + TLC exhaustive invariant over request universe + TLC-generated behaviours replayed on real code + TLC trace validation"),
    "C03": dict(engine="Registry", design="§4 C03",
                text="Spec enumerates mutation class x validity-window placement x skew configuration; TLC checks refusal-without-effect exhaustively; each class is concretised on real requests (bit flips, truncations, wrong signer, missing/mistyped fields) against a recording storage and the recorded steps (result, storage writes) are judged by TLC.",
                note=REG_NOTE + " Byte-level coverage of 'every bit' is brute force in the driver (exhaustive in the thorough tier), not TLC.",
                technique="TLA+ spec + TLC exhaustive + concretised mutation replay + TLC trace validation"),
    "C05": dict(engine="Registry", design="§4 C05",
                text="TLC checks over all lookup orders, signer choices and histories that certificates are produced only with a verified record; the same request universe is replayed on tls.GenerateServerCertificates with a harness storage that delivers node-ID records in the order TLC chose, and TLC judges every recorded result.",
                note=REG_NOTE,
                technique="TLA+ spec + TLC exhaustive + behaviour replay + TLC trace validation"),
    "C06": dict(engine="Registry", design="§4 C06",
                text="Token life-cycle (create / age / tamper / transplant / use / re-use) model-checked for at-most-one enrolment, expiry and no-overwrite; TLC-generated histories run on the real token code with and without an AAD-honouring storage wrapper; recorded steps judged by TLC.",
                note=REG_NOTE + " Ageing uses the lifetime option relative to real time with 250 ms margins; steps slower than the margin are marked uncertain and not judged.",
                technique="TLA+ spec + TLC exhaustive (history variable for single use) + behaviour replay + TLC trace validation"),
    "C10": dict(engine="Registry", design="§4 C10",
                text="Rotation requests sealed with current / previous / foreign / unrelated keys over both lookup paths and repeated-rotation histories: TLC exhaustive on the spec, replay on rotation.RotateNodeCredentials, reply opened with every candidate key, all judged by TLC on the recorded trace.",
                note=REG_NOTE,
                technique="TLA+ spec + TLC exhaustive + behaviour replay + TLC trace validation"),
}

ROOTS_NOTE = ("Trusted: Go crypto/x509, protobuf, TLC. Virtual time: the harness shifts the stored root timestamps instead of the clock (sound because "
              "rotation consults only those timestamps and time.Now(); the DER windows are compared with the proto windows at mint time). Instants are judged "
              "with a tolerance equal to the measured call duration + 2 fine units.")
CHECKS["C08"] = dict(engine="Roots", design="§4 C08",
    text="TLC enumerates every order type of the four stored instants relative to now (plus missing / half-missing records) x reinitialise and checks the code-shaped decision and minting against the table as the property states it, and all tick/rotate histories from empty storage on a grid; TLC-generated records and histories are injected into the real RotateRootCertificates under virtual time over six magnitudes (16 s to 10 y) and every recorded call is judged by RootsTrace.tla.",
    note=ROOTS_NOTE, technique="TLA+ spec (Roots.tla) + TLC exhaustive order-type table and histories + virtual-time replay + TLC trace validation")
CHECKS["C09"] = dict(engine="Roots", design="§4 C09",
    text="TLC checks NoReset, successor-validity and node-always-has-a-trusted-valid-chain over every schedule satisfying the two cadence bounds (and shows the stated bound is tight: bound+1 yields a counterexample); TLC-generated schedules run on the real rotation and authorisation code under virtual time, node chain windows taken from the parsed certificates, and the invariants are evaluated by TLC on the recorded trace.",
    note=ROOTS_NOTE + " TLS verification itself is not executed under virtual time.", technique="TLA+ spec + TLC exhaustive schedules with tightness witness + virtual-time replay + TLC trace validation")

CHECKS["C18"] = dict(engine="Mux", design="§4 C18",
    text="Mux.tla models the listener at the granularity of its critical sections (RWMutex with writer preference, rendezvous channel, both Once values, drain goroutine, context); TLC checks at-most-once return, never-both, accounted-when-settled, no send on closed channel, accept-after-close and (under weak fairness) that Close and blocked senders always return. Histories of the real MultiplexingListener (every distinct start order of small operation sets + seeded stress, race-detector build) are recorded from outside and judged by MuxTrace.tla: the C18 monitor decides violations; explanation of each history by the full model with inferred internal steps binds the model to the code.",
    note="Trusted: Go runtime/race detector, TLC. No hooks: call/return/connection-close events only; internal steps are inferred. A violation is reported only if the same instance reproduces it in 300 re-runs.",
    technique="TLA+ spec (Mux.tla) + TLC exhaustive safety and liveness + black-box trace validation with inferred internal steps (MuxTrace.tla) + Go race detector")

HS_NOTE = ("Trusted: crypto/tls (proof of possession, record layer), crypto/x509 path validation, TLC. Clients are real TLS clients on loopback built from the abstract "
           "record; the server side is the real InterceptingListener with harness-owned storage and base listener (which also lets the harness parse the raw ClientHello).")
CHECKS["C02"] = dict(engine="Handshake", design="§4 C02",
    text="Handshake.tla models the accept pipeline; TLC checks for every history of enrol/remove/reinitialise and every client of the capability product that an authenticated outcome implies possession, a chain to a currently valid root, subject-key binding and a nonce (and state) signature by a stored record, and that peer-set fields enlarge nothing. TLC-generated histories and clients (random, honest, honest-with-one-capability-changed) run as real crypto/tls clients against the real listener; recorded outcomes are judged by HandshakeTrace.tla.",
    note=HS_NOTE, technique="TLA+ spec (Handshake.tla) + TLC exhaustive capability product + adversarial TLS client replay + TLC trace validation")
CHECKS["C14"] = dict(engine="Handshake", design="§4 C14", category="model_checking",
    text="The spec fixes the required outcome (temporary per-connection error, listener keeps serving) for every malformed-input class x library prefix; TLC draws class sequences interleaved with honest dials; the driver concretises each class with seeded random content (ALPN lists, raw bytes, drops at several stages) against the real listener with recover() around Accept; TLC judges every recorded outcome and the follow-up honest dials.",
    note=HS_NOTE + " Byte-level coverage inside a class is seeded sampling (and every entry length in the thorough tier), not TLC.",
    technique="TLA+ spec input classes + TLC-generated sequences + seeded concretisation + TLC trace validation")
CHECKS["C16"] = dict(engine="Handshake", design="§4 C16",
    text="For every authenticated connection of TLC-generated behaviours (honest dials with extra-ALPN and client-state classes, and adversarial clients that do get authenticated) the reported protocol list must equal the list parsed by the harness from the raw ClientHello minus the certificate-preference entry, the state must equal the supplied one and be present only when verified, and the returned list must be a copy; judged by TLC on the recorded trace.",
    note=HS_NOTE + " An empty client state is identified with an absent one (an empty message marshals to zero bytes on this wire format).",
    technique="TLA+ spec + TLC-generated behaviours + real dials with harness-side ClientHello parsing + TLC trace validation")

CHECKS["C19"] = dict(engine="Store", design="§4 C19",
    text="Store.tla is the typed key-value map with the back-end parameters (remove-absent result, store-once rule, listable types); TLC checks the property predicate against every operation in every map reachable in 5 effective operations. TLC-generated operation sequences (incl. unknown/nil types and empty ids) run on the in-memory, file and store-once back ends and each call is judged by StoreTrace.tla; concurrent 3-client programs on the in-memory back end run under the race detector and TLC searches a linearisation of every recorded history.",
    note="Trusted: Go race detector, the filesystem, TLC. Pre/post projections are read through the back end's own Load.",
    technique="TLA+ spec (Store.tla) + TLC exhaustive + behaviour replay on three back ends + TLC trace validation + TLC linearisation search + Go race detector")
CHECKS["C20"] = dict(engine="Alpn", design="§4 C20",
    text="Alpn.tla models Break/Combine over abstract character sequences with constants (budget, radix, index width); TLC checks the round trip with an interleaved foreign entry at every position for every payload length up to 3x the point where the chunk number needs a third digit (scaled constants), and shows that the fixed-width decoder fails there. The real functions are run on boundary and seeded lengths (quick) or every length 1..57138 for both prefixes (thorough), with interleaved foreign / other-prefix / empty names and malformed entry lists; each run is judged by AlpnTrace.tla against the spec's arithmetic at the real constants.",
    note="Trusted: TLC. Payload content is seeded random base64; exhaustive over lengths in the thorough tier, not over content.",
    technique="TLA+ spec (Alpn.tla) + TLC exhaustive on scaled constants + exhaustive-length replay of the real functions + TLC trace validation")

CHECKS["C17"] = dict(engine="Split", design="§4 C17",
    text="Split.tla gives the routing function (nondeterministic where the code ranges over a map) and the property predicate; TLC checks every registry x client. TLC-drawn registries and client sequences (authenticated node with extra names incl. the reserved ones, base-TLS clients offering arbitrary names, fetch-only clients, final close of the base listener) drive a real SplitListener over a real InterceptingListener; every delivery (which sub-listener, connection type, negotiated protocol) and the close propagation are judged by SplitTrace.tla.",
    note="Trusted: crypto/tls, TLC. A connection not handed out within 400 ms counts as closed. An application whose own base TLS configuration advertises a library-prefixed protocol is outside the quantifier.",
    technique="TLA+ spec (Split.tla) + TLC exhaustive + TLC-generated behaviours on the real listeners + TLC trace validation")

SEAL_NOTE = "Trusted: AES-GCM, X25519, go-kms-wrapping's AEAD wrapper, protobuf, TLC. Keys are atoms in the spec and real keys in the replay; what is checked is which secret, key id and associated data the code uses."
CHECKS["C11"] = dict(engine="Seal", design="§4 C11",
    text="Seal.tla defines symbolic Enc/Dec with the previous-key fallback; TLC checks for every sender pair x receiver current/previous pair that decryption yields the original exactly when secret and key id agree. TLC-generated cases (matching, one-component-changed and random receivers, both sides, five message types, tamper classes incl. short and key-info-less envelopes, record filed under key id / application id / no id) plus exhaustive single-bit flips and truncations of one envelope per message type run on the real EncryptMessage/DecryptMessage; every outcome is judged by SealTrace.tla.",
    note=SEAL_NOTE + " Bit/byte coverage is brute force in the driver (exhaustive single-bit flips and truncations in the thorough tier).",
    technique="TLA+ spec (Seal.tla) + TLC exhaustive over key combinations + replay with exhaustive bit flips/truncations + TLC trace validation")
CHECKS["C12"] = dict(engine="Seal", design="§4 C12",
    text="Seal.tla fixes, per record type, which fields must reach storage sealed and what loading with the same / no / another wrapper and a transplanted sealed field must yield. The full matrix record type x optional fields x wrapper is executed on the real Store/Load functions through a recording storage (stored bytes inspected), and whole flows (operator-authorised, token, credential rotation with retained previous keys) are run with wrappers on both sides while every message handed to storage is searched for the run's secrets; TLC judges every line.",
    note=SEAL_NOTE + " Needs an AAD-honouring wrapper (the harness' own; the repository's test wrapper ignores AAD).",
    technique="TLA+ spec (Seal.tla record section) + exhaustive record matrix and flow replay with stored-byte inspection + TLC trace validation")

CHECKS["C13"] = dict(engine="Faults", design="§4 C13", category="fault_enumeration",
    text="Faults.tla gives every flow as its sequence of storage operations with per-step fault tolerance (not-found expected / ignored error) and effects; TLC checks fail-closed, success-implies-persisted and token-consumed-before-record for every flow x position x error kind. On the real code the operation count of each of 13 flows is measured on a fault-free run, then the call is re-run once per position x {generic, not-found, cancelled} with exactly that operation failing under a recording/injecting storage; result, hand-out, persistence, token liveness and bystander records are logged and judged by FaultsTrace.tla.",
    note="Trusted: TLC. Single faults only. Positions come from the real run (not from the spec); the spec's sequences are compared as drift.",
    technique="TLA+ spec (Faults.tla) + TLC exhaustive over flow x position x kind + exhaustive single-fault injection on the real code + TLC trace validation")

CHECKS["C04"] = dict(engine="Enroll", design="§4 C04",
    text="Enroll.tla models the honest node/server process of the four flows and the node's refuse-unless-bound rule; TLC checks for every configuration (flow x back end x wrappers x state/params x substitution) that enrolment completes (liveness under weak fairness, no stuck state) and ends with credentials exactly when nothing was substituted. The full product of 72 honest configurations plus six node-side substitutions per flow x back end is executed on the real library (in-memory, file and store-once back ends, AAD-honouring storage wrappers, real ClientConfigs and a real protocol.Dial through an InterceptingListener); response binding, parsed certificates, stored record and refusals are logged and judged by EnrollTrace.tla.",
    note="Trusted: Go crypto/x509/tls, TLC. The enrolment runs through the public functions; only the final dial goes over loopback.",
    technique="TLA+ spec (Enroll.tla) + TLC exhaustive incl. liveness + full configuration-product replay + TLC trace validation")

CHECKS["C07"] = dict(engine="Handshake", design="§4 C07",
    text="The node side of Handshake.tla: pending (created, unauthorised) / registered nodes, dials to the own server and to eight kinds of rogue peer; TLC-generated histories (new node, dial before authorisation -> ErrNotAuthorized with stored credentials unchanged, authorise, dial with the same key; rogues with foreign roots, stale nonce, no nonce, wrong EKU, self-signed, not-yet-valid next root, foreign without / with an application ALPN) run with the real protocol.Dial over tcp and unix sockets, with storage wrappers, extra ALPN and state; fixed real-time histories with 8 s roots rotate the server once the node's second chain is valid and dial 18 times (this is also the end-to-end half of C09). Every outcome is judged by HandshakeTrace.tla.",
    note=HS_NOTE + " Rogue peers are harness-built crypto/tls servers that hold the server's storage (so they can mint from the real roots where the case calls for it).",
    technique="TLA+ spec (Handshake.tla node side) + TLC-generated histories + rogue-server replay + real-time rotation histories + TLC trace validation")

CHECKS["C15"] = dict(engine="OptSlice", design="§4 C15",
    text="OptSlice.tla makes Go's slice/append aliasing explicit (shared backing array, per-connection headers, in-place append iff spare capacity) for the handshake programs of protocol/tls.go and the token flow; TLC checks Isolation and NoSharedWrite for every interleaving of two connections per kind pair with per-connection copies, and shows that sharing the application's slice or a listener-level copy with spare capacity violates them. On the real listener, TLC's counterexample shape is forced deterministically: connection A is parked at a harness-owned gate (storage Remove of its token, before/after the server-certificate callback) while B completes on a second Accept goroutine; outcomes, reported protocols/state and stored records are compared with handling alone, the application's slice is checked for writes, free-running mixes run under the race detector; lines are judged by OptSliceTrace.tla.",
    note="Trusted: Go race detector, crypto/tls, TLC. Interleavings are forced only at gate points the harness owns; finer ones are covered on the model and by the race detector.",
    technique="TLA+ spec (OptSlice.tla) + TLC exhaustive interleavings with negative witnesses + gated two-connection replay on the real listener + race detector + TLC trace validation")

PENDING = {}
for i in range(1, 21):
    pid = "C%02d" % i
    if pid not in CHECKS:
        PENDING[pid] = "check not built yet (specification and conformance harness in progress; see DESIGN.md §8 build order)"


def main():
    checks = []
    for pid in sorted(CHECKS):
        c = CHECKS[pid]
        checks.append(dict(
            property_id=pid,
            quick_cmd="./check %s --tier quick" % pid,
            thorough_cmd="./check %s --tier thorough" % pid,
            evidence_file="evidence/%s.json" % pid,
            replay_cmd_template="./check %s --replay {path}" % pid,
            engine=c["engine"],
            level_claimed=dict(category=c.get("category", "model_checking"), text=c["text"], design_ref="DESIGN.md " + c["design"]),
            level_note=c["note"],
            technique=c["technique"],
        ))
    engines = {}
    for pid, c in CHECKS.items():
        engines.setdefault(c["engine"], []).append(pid)
    man = dict(
        version=1,
        setup_cmd="./setup.sh",
        hooks=dict(guard="verif", enable="go build -tags verif (no hook is currently needed: the harness owns storage, wrappers, listeners and callbacks)",
                   baseline_off_cmd="cd /repo && GOFLAGS=-mod=mod GOPROXY=off GOSUMDB=off GOTOOLCHAIN=local go test -vet=off -count=1 -timeout 25m ./...",
                   source_commits=[], add_only=True),
        engines=[dict(name=n, path="spec/%s.tla" % n, serves_properties=sorted(p), kind_free_text="TLA+ specification checked with TLC; bound to the code by harness/drivers + <name>Trace.tla")
                 for n, p in sorted(engines.items())],
        checks=checks,
        not_applicable=[dict(property_id=p, reason=r) for p, r in sorted(PENDING.items())],
        notes="VERIF_SEED seeds TLC simulation and every driver choice. Exit 2 = check broken/inconclusive. Fix commits in /repo are listed in known_findings.json (status fixed).",
    )
    with open(os.path.join(HERE, "MANIFEST.json"), "w") as f:
        json.dump(man, f, indent=1)
        f.write("\n")


if __name__ == "__main__":
    main()
