"""Generic check loop for the sequential families:
   MC (exhaustive TLC) -> GEN (TLC simulation of the generator module + fixed
   regression behaviours + python-built extras) -> REPLAY on the real code ->
   VALIDATE the recorded trace with TLC -> verdict / evidence."""
import json
import os
import time

from lib import (Broken, Scratch, log, run_mc, run_gen, run_trace, run_driver, write_ndjson, read_ndjson,
                 load_known, match_known, write_evidence, replay_path, VERIF)


def consts_text(consts):
    lines = []
    for k, v in consts.items():
        lines.append("  %s = %s" % (k, v))
    return "\n".join(lines)


def trace_cfg(consts, props, extra="", spec="Spec"):
    return ("SPECIFICATION " + spec + "\nCONSTANTS\n%s\n  TraceFile = \"trace.ndjson\"\n  Props = {%s}\n%s\nCHECK_DEADLOCK FALSE\n"
            % (consts_text(consts), ",".join('"%s"' % p for p in sorted(props)), extra))


def validate(scr, fam, behs, seed, tier, props, tag):
    """Replay behaviours and validate; returns (result, lines)."""
    beh_path = scr.path("beh_%s.ndjson" % tag)
    tr_path = scr.path("trace_%s.ndjson" % tag)
    write_ndjson(beh_path, behs)
    run_driver(scr, fam["driver"], beh_path, tr_path, seed, tier, race=fam.get("race", False))
    lines = read_ndjson(tr_path)
    if not lines:
        raise Broken("driver recorded no trace lines")
    if fam.get("partition"):
        # one TLC validation per partition (e.g. per storage back end: different spec constants)
        merged = dict(viol=[], drift=[], panic=[], note=[], done=[0, 0, 0, 0, 0], wall=0)
        keyfn, consts_by_key = fam["partition"]
        groups = {}
        for l in lines:
            groups.setdefault(keyfn(l), []).append(l)
        for key, ls in sorted(groups.items()):
            pth = scr.path("trace_%s_%s.ndjson" % (tag, key))
            write_ndjson(pth, ls)
            consts = dict(fam["trace_consts"])
            consts.update(consts_by_key[key])
            r = run_trace(scr, fam["trace_module"], trace_cfg(consts, props, fam.get("trace_extra", ""), fam.get("trace_spec", "Spec")), pth, expect_lines=len(ls))
            for k in ("viol", "drift", "panic", "note"):
                merged[k] += r[k]
            merged["done"] = [a + b for a, b in zip(merged["done"], r["done"])]
        return merged, lines
    res = run_trace(scr, fam["trace_module"], trace_cfg(fam["trace_consts"], props, fam.get("trace_extra", ""), fam.get("trace_spec", "Spec")),
                    tr_path, expect_lines=len(lines))
    return res, lines


SWAP = {"issued": "error", "error": "ok", "ok": "error", "auth": "temperr", "temperr": "auth", "empty": "issued", "rotated": "error",
        "certs": "error", "certs+state": "error", "ok-same": "ok-different", "notauth": "auth", "base": "auth", "subst": "issued",
        "none": "sp1", "__AUTH__": "__UNAUTH__", "__UNAUTH__": "__AUTH__", "sp1": "__UNAUTH__", "sp2": "__UNAUTH__", "notfound": "ok", "dup": "ok"}


def selftest(scr, fam, lines, props):
    prop = sorted(props)[0]
    nt = fam.get("nontrivial")
    cand = [l for l in lines if (fam.get("corrupt") or l.get("res") in SWAP) and (nt is None or nt(prop, l)) and not l.get("unc")]
    if not cand:
        return dict(applicable=False)
    victim = cand[len(cand) // 2]
    tr = victim["tr"]
    sub = [json.loads(json.dumps(l)) for l in lines if l["tr"] == tr]
    for l in sub:
        if l["i"] == victim["i"]:
            if fam.get("corrupt"):
                fam["corrupt"](l)          # family-specific: corrupt a field the trace spec actually reads
            else:
                l["res"] = SWAP[victim["res"]]
                if isinstance(l.get("obs"), dict) and "from" in l["obs"]:
                    l["obs"]["from"] = l["res"]
    pth = scr.path("selftest.ndjson")
    write_ndjson(pth, sub)
    consts = dict(fam["trace_consts"])
    if fam.get("partition"):
        keyfn, consts_by_key = fam["partition"]
        consts.update(consts_by_key[keyfn(victim)])
    try:
        r = run_trace(scr, fam["trace_module"], trace_cfg(consts, props, fam.get("trace_extra", ""), fam.get("trace_spec", "Spec")), pth, expect_lines=len(sub))
    except Broken as e:
        # a corrupted line may make the trace spec itself fail: that is a detection too
        return dict(applicable=True, detected=True, how="trace spec rejected the corrupted trace outright", line=[tr, victim["i"]])
    detected = any(x[-2] == tr and x[-1] == victim["i"] for x in r["viol"]) or any(x[0] == tr and x[1] == victim["i"] for x in r["drift"]) or \
        bool(r["viol"]) or bool(r["drift"])
    return dict(applicable=True, detected=detected, line=[tr, victim["i"]], from_res=victim["res"], to_res=SWAP.get(victim["res"], "family-specific"),
                viol=len(r["viol"]), drift=len(r["drift"]))


def check(prop, fam, tier, seed, replay=None):
    t0 = time.time()
    scr = Scratch(prop)
    if fam.get("materialise"):
        fam["materialise"](scr)
    try:
        return _check(prop, fam, tier, seed, replay, scr, t0)
    finally:
        scr.cleanup()


def _check(prop, fam, tier, seed, replay, scr, t0):
    props = {prop}
    known = load_known()
    if replay:
        rp = json.load(open(replay))
        behs = [rp["behaviour"]]
        res, lines = validate(scr, fam, behs, rp.get("seed", seed), tier, props, "replay")
        vs = [v for v in res["viol"] if v[0] == prop]
        for v in vs:
            print("VIOLATION property=%s replay=%s  # clause=%s step=%s" % (prop, replay, v[1], v[3]))
        if not vs:
            print("replay: no violation of %s reproduced" % prop)
        return 1 if vs else 0

    # (1) exhaustive model checking of the design
    mc_total = dict(states=0, transitions=0)
    mc_runs = []
    for (module, cfg) in fam["mc"][tier]:
        r = run_mc(scr, module, cfg, timeout=fam.get("mc_timeout", {}).get(tier, 900))
        mc_total["states"] += r["states"]
        mc_total["transitions"] += r["transitions"]
        mc_runs.append(dict(module=module, cfg=cfg, distinct_states=r["states"], states_generated=r["transitions"],
                            wall_s=round(r["wall"], 1)))
        log("[%s] MC %s %s: %d distinct / %d generated in %.1fs" % (prop, module, cfg, r["states"], r["transitions"], r["wall"]))
    for (module, cfg, inv) in fam.get("witness", {}).get(tier, []):
        r = run_mc(scr, module, cfg, expect_violation=inv, timeout=300)
        mc_runs.append(dict(module=module, cfg=cfg, anti_vacuity_witness=inv))

    # (2) behaviours
    behs = []
    n_fixed = 0
    fixed = fam.get("fixed")
    if fixed and os.path.exists(os.path.join(VERIF, fixed)):
        for b in read_ndjson(os.path.join(VERIF, fixed)):
            if prop in b.get("props", [prop]):
                behs.append(b)
                n_fixed += 1
    n_gen = 0
    for g in fam["gen"]:
        if prop not in g.get("props", [prop]):
            continue
        num = g["num"][tier]
        gb = run_gen(scr, g["module"], g["cfg"], num, g["depth"], int(seed) * 7919 + len(behs))
        for ops in gb:
            n_gen += 1
            cfgb = g["beh_cfg_fn"](n_gen, int(seed)) if g.get("beh_cfg_fn") else g["beh_cfg"]
            behs.append(dict(id="g%d_%s" % (n_gen, g.get("tag", "x")), cfg=cfgb, ops=ops))
    n_extra = 0
    if fam.get("extra"):
        for b in fam["extra"](prop, tier, int(seed)):
            n_extra += 1
            behs.append(b)
    for i, b in enumerate(behs):
        b.setdefault("id", "b%d" % i)
    ids = set()
    for b in behs:
        if b["id"] in ids:
            raise Broken("duplicate behaviour id %s" % b["id"])
        ids.add(b["id"])
    log("[%s] behaviours: %d fixed, %d TLC-generated, %d driver-built" % (prop, n_fixed, n_gen, n_extra))

    # (3)+(4) replay on the real library, validate the recorded trace
    res, lines = validate(scr, fam, behs, seed, tier, props, "main")
    by_id = {b["id"]: b for b in behs}
    line_at = {(l["tr"], l["i"]): l for l in lines}

    # (5) verdict
    viols = [v for v in res["viol"] if v[0] == prop]
    reported = 0
    known_hit = []
    seen = set()
    confirmed_traces = {}
    unreproduced = []
    for v in viols:
        clause, tr, i = v[1], v[2], v[3]
        ln = line_at.get((tr, i), {})
        op = ln.get("op", {})
        kf = match_known(prop, clause, op, known, tr)
        if kf:
            key = (kf.get("id"),)
            if key not in seen:
                seen.add(key)
                print("KNOWN-FINDING: property=%s %s" % (prop, kf.get("what", kf.get("id"))))
                known_hit.append(kf.get("id"))
            continue
        if tr not in confirmed_traces:
            # reproduce from the replay file before reporting
            rp = replay_path(prop, "%s-s%s" % (tr, seed))
            json.dump(dict(property=prop, seed=int(seed), behaviour=by_id[tr], clause=clause, step=i,
                           observed=dict(op=op, res=ln.get("res"), err=ln.get("err"))),
                      open(rp, "w"), indent=1)
            ok2 = False
            for attempt in range(fam.get("confirm_attempts", 1)):
                r2, _ = validate(scr, fam, [by_id[tr]], seed, tier, props, "confirm")
                if any(x[0] == prop for x in r2["viol"]):
                    ok2 = True
                    break
            confirmed_traces[tr] = (rp, ok2)
        rp, ok = confirmed_traces[tr]
        if not ok:
            # a violation that does not reproduce is never reported; the run is inconclusive (exit 2) unless
            # another violation of this run does reproduce
            if tr not in unreproduced:
                log("[%s] violation in %s step %s (%s) did not reproduce" % (prop, tr, i, clause))
                unreproduced.append(tr)
            if len(unreproduced) > 6:
                break
            continue
        if (tr, clause) in seen:
            continue
        seen.add((tr, clause))
        print("VIOLATION property=%s replay=%s  # clause=%s step=%s op=%s" % (prop, rp, clause, i, json.dumps(op, sort_keys=True)))
        reported += 1
        if reported >= 20:
            break

    drift_traces = {d[0] for d in res["drift"]}
    for d in res["drift"][:10]:
        print("DRIFT %s" % json.dumps(d))
    if res["drift"]:
        print("DRIFT total=%d (implementation differs from the implementation-shaped spec; not an alarm)" % len(res["drift"]))
    for p_ in res["panic"][:5]:
        print("NOTE panic recorded: %s" % json.dumps(p_))

    done = res["done"]
    traces_ok = len([b for b in behs if b["id"] not in drift_traces])
    samples = []
    for b in behs[:1] + behs[-1:]:
        samples.append(dict(behaviour=b["ops"][:6], recorded=[dict(op=l["op"], res=l["res"]) for l in lines if l["tr"] == b["id"]][:6]))
    nontrivial_sigs = set()
    pre_nt = fam.get("nontrivial")
    for l in lines:
        if pre_nt and pre_nt(prop, l):
            nontrivial_sigs.add(json.dumps([l["op"], l["res"]], sort_keys=True))
    coverage = dict(
        states=mc_total["states"], transitions=mc_total["transitions"],
        traces_validated_against_impl=traces_ok,
        samples=samples,
        evaluations=len(lines),
        distinct_nontrivial=len(nontrivial_sigs),
        rule=fam.get("rule", {}).get(prop, fam.get("rule", {}).get("*", "")),
        mc_runs=mc_runs,
        behaviours=dict(fixed=n_fixed, tlc_generated=n_gen, driver_built=n_extra),
        trace_lines=done[0], trace_lines_nontrivial_by_spec=done[1], drift_lines=done[2], uncertain_lines=done[4] if len(done) > 4 else 0,
        known_findings_hit=known_hit,
        exhaustive=False,
    )
    # binding self-test: corrupt the recorded result of one non-trivial line; the trace spec must notice
    # (VIOL or DRIFT), otherwise the validation constrains nothing and the check is broken
    st = selftest(scr, fam, lines, props)
    coverage["binding_selftest"] = st
    if st.get("applicable") and not st.get("detected"):
        raise Broken("binding self-test: a corrupted trace line was accepted silently: %s" % json.dumps(st))
    if fam.get("post"):
        reported += fam["post"](prop, tier, int(seed), scr, coverage, known)
    write_evidence(prop, tier, seed, fam.get("level", "model_checking"), coverage, time.time() - t0, reported,
                   fam.get("assumptions", []))
    if not reported and unreproduced:
        raise Broken("violations seen in %s did not reproduce in %d attempts each: inconclusive" % (unreproduced[:4], fam.get("confirm_attempts", 1)))
    return 1 if reported else 0
