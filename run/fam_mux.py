"""C18: MultiplexingListener (spec/Mux.tla, MuxTrace.tla; driver `nev mux`, race-detector build)."""
import glob
import itertools
import json
import os
import random
import subprocess
import time

from lib import (library_races, Broken, Scratch, log, run_mc, tlc, parse_tuple_fields, build_harness, write_ndjson, read_ndjson,
                 load_known, match_known, write_evidence, replay_path, VERIF, RE_TUP)

MC = dict(
    quick=[("Mux.tla", "MC_Mux_q.cfg")],
    thorough=[("Mux.tla", "MC_Mux_t1.cfg"), ("Mux.tla", "MC_Mux_t2.cfg")],
)
MC_CFG = {
    "MC_Mux_q.cfg": (2, 2, 1, True, True),
    "MC_Mux_t1.cfg": (2, 2, 2, True, True),
    "MC_Mux_t2.cfg": (3, 2, 1, True, False),
}


def mc_text(K, M, C, cancel, live):
    t = ("SPECIFICATION Spec\nCONSTANTS\n  K = %d\n  M = %d\n  C = %d\n  WithCancel = %s\n"
         "INVARIANTS TypeOK ReturnedAtMostOnce NeverBoth NoSendOnClosed Accounted AcceptAfterClose\n" % (K, M, C, "TRUE" if cancel else "FALSE"))
    if live:
        t += "PROPERTIES CloseReturns IngressReturns\n"
    return t + "CHECK_DEADLOCK FALSE\n"


def trace_cfg(mode):
    t = ("SPECIFICATION TSpec\nCONSTANTS\n  K = 3\n  M = 3\n  C = 2\n  WithCancel = TRUE\n  TraceFile = \"trace.ndjson\"\n  TMode = \"%s\"\nCHECK_DEADLOCK FALSE\n" % mode)
    if mode == "explain":
        t += "CONSTRAINT HighWater\nPOSTCONDITION Report\nINVARIANT ExplInv\n"
    return t


def distinct_orders(ops):
    """all distinct start orders up to renaming of same-kind operations (operations of one kind start in index order)"""
    seen = set()
    for p in itertools.permutations(ops):
        cnt = {}
        norm = []
        for o in p:
            k = o[0]
            if k == "X":
                norm.append("X")
                continue
            cnt[k] = cnt.get(k, 0) + 1
            norm.append("%s%d" % (k, cnt[k]))
        t = tuple(norm)
        if t not in seen:
            seen.add(t)
            yield list(t)


def opset(K, M, C, cancel):
    return ["I%d" % i for i in range(1, K + 1)] + ["A%d" % i for i in range(1, M + 1)] + ["C%d" % i for i in range(1, C + 1)] + (["X"] if cancel else [])


def instances(tier, seed):
    rnd = random.Random(seed)
    out = []
    sets = [(2, 2, 1, True), (2, 1, 2, False), (1, 2, 1, True), (2, 2, 1, False)] if tier == "quick" else \
           [(2, 2, 1, True), (2, 1, 2, False), (1, 2, 1, True), (2, 2, 1, False), (2, 2, 2, True), (3, 2, 1, True), (3, 3, 1, False), (2, 3, 2, False), (3, 1, 2, True)]
    n = 0
    for (K, M, C, cancel) in sets:
        orders = list(distinct_orders(opset(K, M, C, cancel)))
        if tier == "quick" and len(orders) > 200:
            orders = rnd.sample(orders, 200)
        if tier == "thorough" and len(orders) > 2500:
            orders = rnd.sample(orders, 2500)
        for o in orders:
            n += 1
            # some or all connections arrive through an attached source listener (IngressListener) instead of IngressConn
            via = rnd.choice([[], [], [K], list(range(1, K + 1)), [1]])
            # unusual items: a live connection ingressed together with an error, or an error without any connection
            errs = {}
            if not via and rnd.random() < 0.3:
                errs[str(rnd.randint(1, K))] = rnd.choice(["connErr", "nilErr"])
            out.append(dict(id="e%d" % n, K=K, M=M, C=C, cancel=cancel, order=o, via=via, errs=errs, settle=rnd.choice([150, 400]), seed=seed))
    # randomised stress: no settling, many small instances
    reps = 600 if tier == "quick" else 8000
    for r in range(reps):
        K, M, C, cancel = rnd.choice([(2, 2, 1, True), (3, 2, 1, True), (3, 3, 2, True), (2, 1, 2, False), (3, 2, 2, False), (3, 1, 1, True)])
        o = opset(K, M, C, cancel)
        rnd.shuffle(o)
        # same-kind ops must start in index order for the trace spec's symmetry: renumber
        cnt = {}
        norm = []
        for x in o:
            if x == "X":
                norm.append(x)
                continue
            cnt[x[0]] = cnt.get(x[0], 0) + 1
            norm.append("%s%d" % (x[0], cnt[x[0]]))
        n += 1
        via = [i for i in range(1, K + 1) if rnd.random() < 0.35]
        errs = {str(i): rnd.choice(["connErr", "nilErr"]) for i in range(1, K + 1) if i not in via and rnd.random() < 0.15}
        out.append(dict(id="s%d" % n, K=K, M=M, C=C, cancel=cancel, order=norm, via=via, errs=errs, settle=rnd.choice([0, 0, 0, 20, 60]), seed=seed))
    # connections arriving through a source listener while Close lands: many small unsettled instances
    for r in range(300 if tier == "quick" else 5000):
        K = rnd.choice([2, 3])
        o = ["I%d" % i for i in range(1, K + 1)] + ["A1", "C1"] + (["X"] if r % 3 == 0 else [])
        rnd.shuffle(o)
        cnt, norm = {}, []
        for x in o:
            if x == "X":
                norm.append(x)
                continue
            cnt[x[0]] = cnt.get(x[0], 0) + 1
            norm.append("%s%d" % (x[0], cnt[x[0]]))
        n += 1
        out.append(dict(id="v%d" % n, K=K, M=1, C=1, cancel=(r % 3 == 0), order=norm, via=list(range(1, K + 1)), errs={}, eachSrc=(r % 2 == 0), settle=0, seed=seed))
    return out


def source_failure_instances(seed):
    """source listeners that shut down with an error of their own (session-style listeners), after or around Close"""
    out = []
    for n, order in enumerate((["I1", "A1", "C1"], ["I1", "C1", "A1"], ["C1", "I1", "A1"], ["I1", "I2", "A1", "X", "C1"], ["I1", "A1", "I2", "A2"], ["A1", "I1", "C1", "I2"])):
        K = sum(1 for x in order if x[0] == "I")
        out.append(dict(id="f%d" % n, K=K, M=sum(1 for x in order if x[0] == "A"), C=sum(1 for x in order if x[0] == "C"), cancel=("X" in order), order=order,
                        via=list(range(1, K + 1)), errs={}, eachSrc=(n % 2 == 0), srcErr="custom", settle=300, seed=seed))
    return out


class DriverCrash(Exception):
    pass


def run_driver_race(scr, insts, tag, seed):
    exe = build_harness(scr, race=True)
    inp, outp = scr.path("inst_%s.ndjson" % tag), scr.path("mtrace_%s.ndjson" % tag)
    write_ndjson(inp, insts)
    racelog = scr.path("race_%s" % tag)
    env = dict(os.environ, GORACE="log_path=%s halt_on_error=0 exitcode=0" % racelog)
    p = subprocess.run([exe, "mux", "-in", inp, "-out", outp, "-seed", str(seed), "-par", "8"], stdout=subprocess.PIPE, stderr=subprocess.STDOUT,
                       text=True, env=env, timeout=1800)
    if p.returncode != 0:
        if "panic:" in p.stdout or "fatal error:" in p.stdout:
            raise DriverCrash(p.stdout[-4000:])
        raise Broken("mux driver failed: %s" % p.stdout[-3000:])
    races, own = [], []
    for f in glob.glob(racelog + "*"):
        a, b = library_races(open(f).read())
        races += a
        own += b
    if own:
        print("NOTE %d race report(s) between two accesses of the harness' own bookkeeping ignored" % len(own))
    return read_ndjson(outp), outp, races


def run_tlc_trace(scr, mode, trace_path, timeout=1500):
    import shutil
    cfgname = "MuxTrace_%s.cfg" % mode
    open(os.path.join(scr.spec, cfgname), "w").write(trace_cfg(mode))
    shutil.copyfile(trace_path, os.path.join(scr.spec, "trace.ndjson"))
    out, rc, wall = tlc(scr, "MuxTrace.tla", cfgname, timeout=timeout, workers=1, dfs=(mode == "explain"))
    viol, notes, done, hw = [], [], None, None
    for line in out.splitlines():
        if line.startswith('<<"HIGHWATER"'):
            f = parse_tuple_fields(line)
            hw = (f[1], f[2])
    from lib import RE_TUP_ML
    for m in RE_TUP_ML.finditer(out):
        f = parse_tuple_fields(m.group(2))
        if m.group(1) == "VIOL":
            viol.append(f)
        elif m.group(1) == "NOTE":
            notes.append(f)
        elif m.group(1) == "DONE":
            done = f
    if "Error:" in out and "Invariant ExplInv is violated" not in out:
        raise Broken("MuxTrace %s failed:\n%s" % (mode, out[-3000:]))
    m = None
    for m in __import__("re").finditer(r"(\d+) states generated, (\d+) distinct states found", out):
        pass
    states = (int(m.group(2)), int(m.group(1))) if m else (0, 0)
    return dict(viol=viol, notes=notes, done=done, hw=hw, out=out, states=states, inv_violated="Invariant ExplInv is violated" in out)


def monitor(scr, lines_path, nlines):
    r = run_tlc_trace(scr, "monitor", lines_path)
    if not r["done"] or r["done"][0] != nlines:
        raise Broken("monitor did not consume the whole trace")
    return r


def check(prop, tier, seed, replay=None):
    t0 = time.time()
    scr = Scratch(prop)
    try:
        for name, (K, M, C, cancel, live) in MC_CFG.items():
            open(os.path.join(scr.spec, name), "w").write(mc_text(K, M, C, cancel, live))
        return _check(prop, tier, seed, replay, scr, t0)
    finally:
        scr.cleanup()


def _viol_instances(viol):
    d = {}
    for v in viol:
        d.setdefault(v[2], []).append(v[1])
    return d


def _check(prop, tier, seed, replay, scr, t0):
    known = load_known()
    if replay:
        rp = json.load(open(replay))
        inst = rp["instance"]
        insts = [dict(inst, id="r%d" % i) for i in range(400)]
        try:
            lines, path, races = run_driver_race(scr, insts if not inst.get("srcErr") else insts[:1], "replay", seed)
        except DriverCrash as e:
            if "nodeenrollment/net." not in str(e):
                raise Broken("mux driver crashed outside the library: %s" % str(e)[-2000:])
            print("VIOLATION property=%s replay=%s  # a goroutine of the listener panicked: the process died" % (prop, replay))
            return 1
        r = monitor(scr, path, len(lines))
        bad = _viol_instances(r["viol"])
        if bad or races:
            print("VIOLATION property=%s replay=%s  # reproduced in %d of 400 runs%s" % (prop, replay, len(bad), "; data race reported" if races else ""))
            return 1
        print("replay: no violation reproduced in 400 runs")
        return 0

    mc_runs, st, tr = [], 0, 0
    for (module, cfg) in MC[tier]:
        r = run_mc(scr, module, cfg, timeout=2400)
        st += r["states"]
        tr += r["transitions"]
        mc_runs.append(dict(module=module, cfg=cfg, distinct_states=r["states"], states_generated=r["transitions"], wall_s=round(r["wall"], 1)))
        log("[%s] MC %s %s: %d distinct / %d generated in %.1fs" % (prop, module, cfg, r["states"], r["transitions"], r["wall"]))

    insts = instances(tier, seed)
    by_id = {i["id"]: i for i in insts}
    lines, path, races = run_driver_race(scr, insts, "main", seed)
    log("[%s] %d instances, %d events recorded under the race detector" % (prop, len(insts), len(lines)))
    r = monitor(scr, path, len(lines))
    bad = _viol_instances(r["viol"])
    reported = 0
    known_hit = []
    unreproduced = []
    for tr_id, clauses in list(bad.items())[:10]:
        inst = by_id[tr_id]
        kf = match_known(prop, clauses[0], inst, known, tr_id)
        if kf:
            print("KNOWN-FINDING: property=%s %s" % (prop, kf.get("what")))
            known_hit.append(kf.get("id"))
            continue
        rp = replay_path(prop, "%s-s%s" % (tr_id, seed))
        json.dump(dict(property=prop, seed=seed, instance=inst, clauses=clauses,
                       recorded=[l for l in lines if l["tr"] == tr_id]), open(rp, "w"), indent=1)
        # reproduce: the same instance again, many times
        again = [dict(inst, id="c%d" % i) for i in range(300)]
        l2, p2, _ = run_driver_race(scr, again, "confirm", seed)
        r2 = monitor(scr, p2, len(l2))
        if not r2["viol"]:
            # rare schedules may not come back in 300 re-runs: never reported; inconclusive only if nothing else reproduces
            log("[%s] violation %s of instance %s did not reproduce in 300 runs" % (prop, clauses, tr_id))
            unreproduced.append(tr_id)
            continue
        print("VIOLATION property=%s replay=%s  # clauses=%s order=%s reproduced=%d/300" % (prop, rp, ",".join(sorted(set(clauses))), " ".join(inst["order"]), len(_viol_instances(r2["viol"]))))
        reported += 1
    if races:
        rp = replay_path(prop, "race-s%s" % seed)
        json.dump(dict(property=prop, seed=seed, instance=insts[0], race_reports=races[:3]), open(rp, "w"), indent=1)
        print("VIOLATION property=%s replay=%s  # clause=data-race (Go race detector)" % (prop, rp))
        reported += 1

    # source listeners failing with an error of their own: a panic in one of the LIBRARY's goroutines takes the whole
    # process down, so these instances run one process each; a crash counts only if its stack names the library's
    # listener code and the same instance crashes again
    crash_probe = 0
    for inst in source_failure_instances(seed):
        crash_probe += 1
        try:
            l4, p4, _ = run_driver_race(scr, [inst], "srcfail_%s" % inst["id"], seed)
            r4 = monitor(scr, p4, len(l4))
            if _viol_instances(r4["viol"]):
                rp = replay_path(prop, "%s-s%s" % (inst["id"], seed))
                json.dump(dict(property=prop, seed=seed, instance=inst, clauses=sorted(set(sum(_viol_instances(r4["viol"]).values(), []))), recorded=l4), open(rp, "w"), indent=1)
                print("VIOLATION property=%s replay=%s  # clauses=%s order=%s (source listeners shut down with their own error)" % (
                    prop, rp, ",".join(sorted(set(sum(_viol_instances(r4["viol"]).values(), [])))), " ".join(inst["order"])))
                reported += 1
        except DriverCrash as e:
            txt = str(e)
            if "nodeenrollment/net." not in txt:
                raise Broken("mux driver crashed outside the library: %s" % txt[-2000:])
            try:
                run_driver_race(scr, [dict(inst, id="fc")], "srcfail_confirm", seed)
                log("[%s] crash of instance %s did not reproduce" % (prop, inst["id"]))
                unreproduced.append(inst["id"])
            except DriverCrash as e2:
                rp = replay_path(prop, "%s-s%s" % (inst["id"], seed))
                json.dump(dict(property=prop, seed=seed, instance=inst, clauses=["panic"], crash=str(e2)[-3000:]), open(rp, "w"), indent=1)
                print("VIOLATION property=%s replay=%s  # clauses=panic (a goroutine of the listener panicked: the process died) order=%s" % (prop, rp, " ".join(inst["order"])))
                reported += 1

    # explanation by the model (drift only): a subset in the quick tier
    # (instances with unusual items are judged by the monitor only: Mux.tla models items that carry a connection and no error)
    expl = [i for i in insts if i["K"] <= 3 and i["M"] <= 3 and i["C"] <= 2 and not i.get("errs")]
    limit = 350 if tier == "quick" else 3000
    expl_ids = set(i["id"] for i in expl[:limit]) - set(bad.keys())
    explained, unexplained, est = 0, [], (0, 0)
    todo = [l for l in lines if l["tr"] in expl_ids]
    for attempt in range(6):
        if not todo:
            break
        p3 = scr.path("expl_%d.ndjson" % attempt)
        write_ndjson(p3, todo)
        r3 = run_tlc_trace(scr, "explain", p3)
        est = (est[0] + r3["states"][0], est[1] + r3["states"][1])
        hw = r3["hw"]
        if hw is None:
            raise Broken("explain run gave no high-water mark:\n" + r3["out"][-2000:])
        if hw[0] >= hw[1] + 1 and not r3["inv_violated"]:
            explained += len(set(l["tr"] for l in todo))
            todo = []
            break
        stuck_line = todo[min(hw[0], len(todo)) - 1]
        bad_tr = stuck_line["tr"]
        unexplained.append(bad_tr)
        idx = [k for k, l in enumerate(todo) if l["tr"] == bad_tr]
        explained += len(set(l["tr"] for l in todo[:idx[0]]))
        todo = todo[idx[-1] + 1:]
    for u in unexplained[:5]:
        print("DRIFT instance %s is not a behaviour of Mux.tla (order %s)" % (u, " ".join(by_id[u]["order"])))

    samples = [dict(instance=insts[0], recorded=[dict(ev=l["ev"], id=l["id"], res=l["res"]) for l in lines if l["tr"] == insts[0]["id"]])]
    nontrivial = set()
    for l in lines:
        pass
    per = {}
    for l in lines:
        per.setdefault(l["tr"], []).append((l["ev"], l["id"], l["res"]))
    for k, v in per.items():
        if any(e[0] == "ConnClosed" for e in v) and any(e[0] == "AcceptEnd" and e[2] > 0 for e in v):
            nontrivial.add(json.dumps(v))
    coverage = dict(states=st + est[0], transitions=tr + est[1], traces_validated_against_impl=explained, samples=samples,
                    evaluations=len(insts), distinct_nontrivial=len(nontrivial),
                    rule="instances = every distinct start order of small operation sets (ingress x k - through IngressConn or through a source listener attached with IngressListener -, accept x m, close x 1-2, parent cancel) with settling between starts + seeded stress instances without settling, all under the race detector; non-trivial = distinct recorded histories in which some connection was returned by an accept AND some connection was closed by the listener",
                    source_failure_instances=crash_probe, mc_runs=mc_runs, instances=len(insts), events=len(lines), monitored_instances=len(insts),
                    explained_instances=explained, unexplained_instances=len(unexplained), race_reports=len(races),
                    known_findings_hit=known_hit, exhaustive=False)
    write_evidence(prop, tier, seed, "model_checking", coverage, time.time() - t0, reported,
                   ["black-box recording: call/return/connection-close events stamped under one mutex; internal steps inferred by TLC",
                    "data races are decided by the Go race detector on the recorded executions, not by TLC",
                    "a history is judged by the C18 monitor of MuxTrace.tla; explanation by the full Mux.tla model is reported as drift only"])
    if not reported and unreproduced:
        raise Broken("violations of instances %s did not reproduce in 300 runs each: inconclusive" % unreproduced[:4])
    return 1 if reported else 0
