#!/bin/bash
# usage: try_seed.sh <seed-dir> <prop> [verify] [tier]
#   seed-dir contains patch.diff, a demo *_test.go, demo_path.txt
# Works in a scratch worktree of /repo (removed afterwards); /repo itself is not touched:
# the check is pointed at the worktree with VERIF_REPO.
# "verify": also confirm that the patch builds, the existing suite passes, and the demo fails with /
#           passes without the patch.
set -u
SD=$(cd $1 && pwd); P=$2; MODE=${3:-}; TIER=${4:-quick}
export GOFLAGS=-mod=mod GOPROXY=off GOSUMDB=off GOTOOLCHAIN=local
WT=$(mktemp -d /tmp/wtv-XXXX); rmdir $WT
git -C /repo worktree add -q --detach $WT HEAD || exit 2
trap 'git -C /repo worktree remove --force $WT' EXIT
cd $WT
if [ "$MODE" = "verify" ]; then
  DP=$(cat $SD/demo_path.txt)
  DEMO=$(ls $SD/*_test.go | head -1)
  cp $DEMO $WT/$DP; PKG=./$(dirname $DP)
  echo "--- demo WITHOUT patch (must pass)"; go test -vet=off -count=1 -timeout 300s -run 'Demo' $PKG 2>&1 | tail -3
  git apply $SD/patch.diff || { echo "PATCH DOES NOT APPLY"; exit 3; }
  echo "--- build"; go build ./... 2>&1 | tail -3
  echo "--- demo WITH patch (must fail)"; go test -vet=off -count=1 -timeout 300s -run 'Demo' $PKG 2>&1 | tail -3
  rm -f $WT/$DP
  echo "--- existing suite WITH patch (must pass)"; go test -vet=off -count=1 -timeout 25m ./... 2>&1 | grep -v "no test files" | grep -v "^ok" | tail -12; echo "suite done"
else
  git apply $SD/patch.diff || { echo "PATCH DOES NOT APPLY"; exit 3; }
fi
cd /verif
echo "--- ./check $P $TIER WITH patch"
VERIF_REPO=$WT VERIF_NOEVIDENCE=1 ./check $P --tier $TIER > $WT.out 2>/dev/null; RC=$?; cut -c1-300 $WT.out | head -6; echo "rc=$RC"; rm -f $WT.out
