#!/bin/bash
# usage: try_seed.sh <seed-dir> <prop> [verify]
#   seed-dir contains patch.diff, demo test file, demo_path.txt
# "verify": confirm in a scratch worktree that the patch builds, the existing suite passes,
#           and the demo fails with / passes without the patch.
# always : apply to /repo, run ./check <prop> --tier quick, undo.
set -u
SD=$1; P=$2; MODE=${3:-}
export GOFLAGS=-mod=mod GOPROXY=off GOSUMDB=off GOTOOLCHAIN=local
if [ "$MODE" = "verify" ]; then
  WT=$(mktemp -d /tmp/wtv-XXXX); rmdir $WT
  git -C /repo worktree add -q --detach $WT HEAD || exit 2
  DP=$(cat $SD/demo_path.txt)
  DEMO=$(ls $SD/*_test.go | head -1)
  ( cd $WT && cp $DEMO $WT/$DP && PKG=./$(dirname $DP)
    echo "--- demo WITHOUT patch (must pass)"; go test -vet=off -count=1 -timeout 300s -run 'Demo' $PKG 2>&1 | tail -3
    git apply $SD/patch.diff || { echo "PATCH DOES NOT APPLY"; exit 3; }
    echo "--- build"; go build ./... 2>&1 | tail -3
    echo "--- demo WITH patch (must fail)"; go test -vet=off -count=1 -timeout 300s -run 'Demo' $PKG 2>&1 | tail -3
    rm -f $WT/$DP
    echo "--- existing suite WITH patch (must pass)"; go test -vet=off -count=1 -timeout 25m ./... 2>&1 | grep -v "no test files" | tail -12 )
  git -C /repo worktree remove --force $WT
fi
cd /verif
git -C /repo apply $SD/patch.diff || { echo "apply to /repo failed"; exit 3; }
echo "--- ./check $P quick WITH patch"
./check $P --tier quick 2>/dev/null | cut -c1-400 | head -8; echo "rc=${PIPESTATUS[0]}"
git -C /repo checkout -- . && git -C /repo status --short | head -3
