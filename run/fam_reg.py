"""Registry family: C01 C03 C05 C06 C10 (spec/Registry.tla, RegistryGen.tla, RegistryTrace.tla; driver `nev reg`)."""
import os

from lib import SPEC

BASE2 = {"CertKeys": '{"k1","k2"}', "EncKeys": '{"e1","e2"}', "Nonces": '{"n1","n2"}', "Tokens": '{"t1","t2"}',
         "AppStates": '{"s1"}', "NodeIds": '{"N1"}'}
BASE3 = dict(BASE2, CertKeys='{"k1","k2","k3"}')
BASE3S = dict(BASE3, AppStates='{"s1","s2"}', NodeIds='{"N1","N10","n1"}')
BASE3N = dict(BASE3, NodeIds='{"N1","N10","n1"}')      # node ids one of which is a prefix of another / differs from it only in letter case


def gen_cfg(name, consts, classes, depth, sw=False, nidl=False, fallback="FetchAny", so=False, be="inmem"):
    """Write a generator config into spec/ (idempotent) and return its file name."""
    txt = "SPECIFICATION Spec\nCONSTANTS\n"
    for k, v in consts.items():
        txt += "  %s = %s\n" % (k, v)
    txt += "  Depth = %d\n  Classes = {%s}\n  Fallback = \"%s\"\n  CfgSW = %s\n  CfgNidl = %s\n  CfgSO = %s\n  CfgRmErr = %s\nCHECK_DEADLOCK FALSE\n" % (
        depth, ",".join('"%s"' % c for c in classes), fallback, "TRUE" if sw else "FALSE", "TRUE" if nidl else "FALSE", "TRUE" if so else "FALSE",
        "TRUE" if be.startswith("file") else "FALSE")
    return name, txt


def beh_cfg(consts, sw=False, nidl=False, so=False, nide=False, be="inmem"):
    ck = [x.strip('"') for x in consts["CertKeys"].strip("{}").split(",")]
    tk = [x.strip('"') for x in consts["Tokens"].strip("{}").split(",")]
    # the projection always covers the trace spec's constants (BASE3), whatever subset the behaviour uses
    return dict(sw=sw, nidl=nidl, so=so, nide=nide, be=be, rmerr=be.startswith("file"), certKeys=["k1", "k2", "k3"], tokens=["t1", "t2"])


GEN_CFGS = {}


def G(tag, consts, classes, depth, num, props, sw=False, nidl=False, fallback="FetchAny", so=False, nide=False, be="inmem"):
    name = "RegistryGen_%s.cfg" % tag
    GEN_CFGS[name] = gen_cfg(name, consts, classes, depth, sw, nidl, fallback, so, be)[1]
    return dict(module="RegistryGen.tla", cfg=name, depth=depth, num=num, props=props, tag=tag,
                beh_cfg=beh_cfg(consts, sw, nidl, so, nide, be))


def materialise(scr):
    for name, txt in GEN_CFGS.items():
        with open(os.path.join(scr.spec, name), "w") as f:
            f.write(txt)


def nontrivial(prop, l):
    op = l["op"]["op"]
    if prop in ("C01", "C06"):
        return op == "Fetch" and (l["res"] == "issued" or l["op"].get("n", "").startswith("t") or l["op"].get("ww") != "none"
                                  or l["op"].get("rby") != "none" or l["pre"]["nodes"].get(l["op"]["k"], {}).get("present"))
    if prop == "C03":
        return op in ("Submit", "CreateRequest")
    if prop == "C05":
        return op == "GenCerts" and not l["op"]["skip"]
    if prop == "C10":
        return op == "Rotate" and l["op"]["src"] != "rand"
    return False


FAMILY = dict(
    driver="reg",
    trace_module="RegistryTrace.tla",
    trace_consts=BASE3S,
    level="model_checking",
    fixed="fixed/reg.ndjson",
    nontrivial=nontrivial,
    mc=dict(
        quick=[],   # filled per property below
        thorough=[],
    ),
    gen=[
        G("C01a", BASE2, ["Authorize", "Token", "Age", "Remove", "Regw", "FetchAuth", "FetchNear", "FetchAny"], 10,
          dict(quick=150, thorough=3000), ["C01"]),
        G("C01b", BASE3, ["Authorize", "Token", "Remove", "Regw", "FetchAuth", "FetchNear"], 14,
          dict(quick=100, thorough=2000), ["C01"], sw=True),
        G("C01c", BASE2, ["Authorize", "Remove", "Regw", "FetchAuth", "FetchNear", "FetchNear"], 12,
          dict(quick=60, thorough=1500), ["C01"], so=True),
        # the file back end (one handle, and two handles on one directory: which one serves a step must not matter)
        G("C01d", BASE2, ["Authorize", "Token", "Remove", "Remove", "FetchAuth", "FetchNear", "FetchAny"], 12,
          dict(quick=40, thorough=800), ["C01"], be="file"),
        G("C01e", BASE2, ["Authorize", "Token", "Remove", "FetchAuth", "FetchAuth", "FetchNear"], 12,
          dict(quick=40, thorough=800), ["C01", "C06"], be="file2"),
        # requests whose info is sealed with the server's storage wrapper; token fetches with the skip-storage option
        G("C01f", BASE2, ["Authorize", "Token", "Regw", "FetchSW", "FetchSW", "FetchSkip", "FetchAuth"], 10,
          dict(quick=40, thorough=800), ["C01", "C06"], sw=True),
        G("C06a", BASE2, ["Token", "Age", "Authorize", "Remove", "FetchAuth", "FetchNear", "Tamper"], 12,
          dict(quick=120, thorough=2500), ["C06"], sw=True),
        G("C06b", BASE2, ["Token", "Age", "Authorize", "FetchAuth", "FetchNear", "Tamper"], 12,
          dict(quick=80, thorough=1500), ["C06"], sw=False),
        # overlapping fetches presenting the same token (A parked between its token load and its token removal), on the
        # in-memory back end (known finding KF-C06-1) and on the file back end
        G("C06c", BASE2, ["Token", "Age", "FetchRace", "FetchRace", "FetchAuth", "Authorize"], 8,
          dict(quick=25, thorough=500), ["C06"], be="file"),
        G("C06d", BASE2, ["Token", "FetchRace", "FetchAuth"], 6,
          dict(quick=10, thorough=200), ["C06"], sw=True),
        G("C03a", BASE2, ["Submit", "SubmitWin", "CreateRequest", "Authorize"], 10,
          dict(quick=150, thorough=3000), ["C03"]),
        G("C05a", BASE3, ["Authorize", "Nid", "Remove", "GenCerts", "GenNear", "KeyKind", "PrevCert"], 12,
          dict(quick=120, thorough=2500), ["C05"], nidl=True),
        G("C05b", BASE3, ["Authorize", "Nid", "Remove", "GenCerts", "GenNear", "KeyKind"], 10,
          dict(quick=60, thorough=1000), ["C05"], nidl=False),
        G("C05d", BASE3N, ["Authorize", "Nid", "Nid", "Remove", "GenCerts", "GenNear", "GenNear"], 12,
          dict(quick=40, thorough=800), ["C05"], nidl=True, so=True),
        G("C05c", BASE3, ["Authorize", "Nid", "Remove", "GenCerts", "GenNear"], 10,
          dict(quick=50, thorough=1000), ["C05"], nidl=True, nide=True),
        G("C10a", BASE3S, ["Authorize", "Nid", "Prev", "Remove", "Rotate", "RotNear", "Strip"], 12,
          dict(quick=120, thorough=2500), ["C10"], nidl=True),
        G("C10c", BASE3S, ["Authorize", "Prev", "Remove", "Rotate", "RotNear", "RotNear"], 12,
          dict(quick=40, thorough=800), ["C10"], nidl=False, be="file2"),
        G("C10b", BASE3S, ["Authorize", "Prev", "Remove", "Rotate", "RotNear"], 12,
          dict(quick=80, thorough=1500), ["C10"], nidl=False, sw=True),
    ],
    rule={
        "C01": "behaviours = TLC simulation of RegistryGen (operator actions + authorised / one-field-mutated / arbitrary well-signed fetch requests, with wrapped and re-wrapped variants) + fixed regression behaviours; a trace line is non-trivial when it is a Fetch that touches an existing record, a token, or wrapped/re-wrapped info, or was answered with credentials; distinct = distinct (operation, result) pairs",
        "C03": "Submit lines: every mutation class x window placement x skew configuration drawn by TLC; CreateRequest lines: honest node-built requests; distinct = distinct (operation, result) pairs",
        "C05": "GenCerts lines with local skip off: signer of nonce/state x lookup path x record order drawn by TLC over histories of authorise/remove/set-node-id",
        "C06": "Fetch lines presenting token-shaped nonces over histories of create / age / tamper / transplant / use, with and without storage wrapper",
        "C10": "Rotate lines whose payload is sealed with a real record key (current or previous) over histories of authorise / set-previous-key / set-node-id / remove",
    },
    assumptions=[
        "Ed25519 / X25519 / AES-GCM strength is trusted; atoms of the spec are concretised as real keys and the observed outcome must equal the symbolic one",
        "TLC exhaustive result is about Registry.tla within the stated constants; it transfers to the code only through the validated traces (drift = 0)",
    ],
)

MC = {
    "C01": dict(quick=[("MC_Registry.tla", "MC_Registry_C01q.cfg"), ("MC_Registry.tla", "MC_Registry_C01q_so.cfg")], thorough=[("MC_Registry.tla", "MC_Registry_C01.cfg"), ("MC_Registry.tla", "MC_Registry_C01b.cfg"), ("MC_Registry.tla", "MC_Registry_C01q_so.cfg")]),
    "C06": dict(quick=[("MC_Registry.tla", "MC_Registry_C06q.cfg"), ("MC_Registry.tla", "MC_Registry_C06_race_file.cfg")],
                thorough=[("MC_Registry.tla", "MC_Registry_C06.cfg"), ("MC_Registry.tla", "MC_Registry_C06b.cfg"), ("MC_Registry.tla", "MC_Registry_C06_race_file.cfg")]),
    "C03": dict(quick=[("MC_Registry.tla", "MC_Registry_C03.cfg")], thorough=[("MC_Registry.tla", "MC_Registry_C03.cfg")]),
    "C05": dict(quick=[("MC_Registry.tla", "MC_Registry_C05q.cfg")], thorough=[("MC_Registry.tla", "MC_Registry_C05.cfg")]),
    "C10": dict(quick=[("MC_Registry.tla", "MC_Registry_C10q.cfg")], thorough=[("MC_Registry.tla", "MC_Registry_C10.cfg"), ("MC_Registry.tla", "MC_Registry_C10b.cfg")]),
}


# design-level witness of known finding KF-C06-1: with the token fetch modelled as its two critical sections and a back
# end whose Remove does not fail for an absent entry, one token enrols two nodes (must be VIOLATED)
WITNESS = {"C06": dict(quick=[("MC_Registry.tla", "MC_Registry_C06_race_w.cfg", "InvC06Once")],
                       thorough=[("MC_Registry.tla", "MC_Registry_C06_race_w.cfg", "InvC06Once")])}


def family_for(prop):
    f = dict(FAMILY)
    f["mc"] = MC[prop]
    f["witness"] = WITNESS.get(prop, {})
    # the thorough exhaustive configurations take 3-13 min each on an otherwise idle 16-core machine
    f["mc_timeout"] = dict(quick=900, thorough=3600)
    return f
