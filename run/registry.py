"""Maps property ids to check functions."""
import fam_reg
import seqfamily


def _reg(prop, tier, seed, replay):
    fam = fam_reg.family_for(prop)
    orig = seqfamily.Scratch

    class S(orig):
        def __init__(self, prefix="vf"):
            super().__init__(prefix)
            fam_reg.materialise(self)
    seqfamily.Scratch = S
    try:
        return seqfamily.check(prop, fam, tier, seed, replay)
    finally:
        seqfamily.Scratch = orig


def _roots(prop, tier, seed, replay):
    import fam_roots
    return seqfamily.check(prop, fam_roots.family_for(prop), tier, seed, replay)


CHECKS = {p: _reg for p in ("C01", "C03", "C05", "C06", "C10")}
CHECKS.update({p: _roots for p in ("C08", "C09")})


def _mux(prop, tier, seed, replay):
    import fam_mux
    return fam_mux.check(prop, tier, seed, replay)


CHECKS["C18"] = _mux


def _hs(prop, tier, seed, replay):
    import fam_hs
    return seqfamily.check(prop, fam_hs.family_for(prop), tier, seed, replay)


CHECKS.update({p: _hs for p in ("C02", "C07", "C14", "C16")})


def _c20(prop, tier, seed, replay):
    import fam_pure
    return seqfamily.check(prop, fam_pure.alpn_family(), tier, seed, replay)


CHECKS["C20"] = _c20


def _c19(prop, tier, seed, replay):
    import fam_pure
    return seqfamily.check(prop, fam_pure.store_family(), tier, seed, replay)


CHECKS["C19"] = _c19


def _c17(prop, tier, seed, replay):
    import fam_pure
    return seqfamily.check(prop, fam_pure.split_family(), tier, seed, replay)


CHECKS["C17"] = _c17


def _seal(prop, tier, seed, replay):
    import fam_pure
    return seqfamily.check(prop, fam_pure.seal_family(prop), tier, seed, replay)


CHECKS.update({"C11": _seal, "C12": _seal})


def _c13(prop, tier, seed, replay):
    import fam_pure
    return seqfamily.check(prop, fam_pure.faults_family(), tier, seed, replay)


CHECKS["C13"] = _c13


def _c04(prop, tier, seed, replay):
    import fam_pure
    return seqfamily.check(prop, fam_pure.enrol_family(), tier, seed, replay)


CHECKS["C04"] = _c04


def _c15(prop, tier, seed, replay):
    import fam_pure
    return seqfamily.check(prop, fam_pure.iso_family(), tier, seed, replay)


CHECKS["C15"] = _c15
