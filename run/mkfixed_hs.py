#!/usr/bin/env python3
"""Regression behaviours for the handshake family -> fixed/hs.ndjson"""
import json, os
HERE = os.path.dirname(os.path.dirname(os.path.abspath(__file__)))
B = []
def cfg(nidl=False, base=True, sw=False, regw=False, unix=False, life=0, nide=False, lstate=False, so=False, twoh=False, lskew=False, llog=False): return dict(nidl=nidl, nide=nide, lstate=lstate, lskew=lskew, llog=llog, so=so, twoh=twoh, base=base, sw=sw, regw=regw, unix=unix, lifeSec=life, certKeys=["k1", "k2", "k3"])
def NN(k): return dict(op="NewNode", k=k)
def AP(k): return dict(op="AuthorizePending", k=k)
def RG(k, kind, ex="none"): return dict(op="Rogue", k=k, kind=kind, ex=ex)
RW = dict(op="RotateWait")
ROGUES = ["foreign", "staleNonce", "noNonce", "wrongEku", "selfSigned", "foreignNoAlpn", "foreignExtraAlpn", "nextRootNotYetValid", "staleNonceExtraCert", "otherDeployment"]
def E(k): return dict(op="Enroll", k=k)
def R(k): return dict(op="Remove", k=k)
RE = dict(op="Reinit")
def C(k, ck=None, chain="b0", priv=True, nsig=None, stt="none", skip=False, nid="none", pref="cur", cn=False, kind="auth"):
    return dict(op="Connect", kind=kind, k=k, ck=ck or k, chain=chain, priv=priv, nsig=(k if nsig is None else nsig), stt=stt, skip=skip, nid=nid, pref=pref, cn=cn)
def RPL(c): return dict(c, replay=True)
def D(k, ex="none", stt="none"): return dict(op="Dial", k=k, ex=ex, stt=stt)
def M(cls, pfx="auth"): return dict(op="Malformed", cls=cls, pfx=pfx)
def beh(i, props, c, ops): B.append(dict(id=i, props=props, cfg=c, ops=ops))

for nidl in (False, True):
    x = "n" if nidl else ""
    beh("f02_removed_skip" + x, ["C02", "C16"], cfg(nidl=nidl), [E("k1"), E("k2"), C("k1"), C("k1", stt="ok"), C("k1", skip=True, stt="forged"), R("k1"), C("k1"), C("k1", skip=True),
                                                             C("k1", skip=True, nsig="kx"), C("k1", skip=True, cn=True, stt="unsigned"), C("k2", nid="own"), C("k2", ck="k2", nid="other"),
                                                             C("k1", ck="k2", nsig="k2", nid="other"), C("k2", ck="k1"), C("k1", ck="k2", nsig="k2")])
    beh("f02_chains" + x, ["C02"], cfg(nidl=nidl, sw=True), [E("k1"), C("k1", chain="foreign"), C("k1", chain="leadOwn"), C("k1", chain="self"), C("k1", chain="b1"), C("k1", priv=False), C("k1", nsig="kx"),
                                                              C("k1", nsig="none"), C("k1", pref="garbage"), C("k1", pref="next"), C("k1", pref="none"), RE, C("k1"), D("k1"),
                                                              E("k2"), C("k2"), C("k2", kind="fetch"), C("k2", kind="base")])
# node ids nobody is registered under (answered with not-found or with an empty set), by a removed node holding a still valid certificate
for nidl, nide in ((False, False), (True, False), (True, True)):
    beh("f02_bogus_nid" + ("n" if nidl else "") + ("e" if nide else ""), ["C02"], cfg(nidl=nidl, nide=nide),
        [E("k1"), E("k2"), C("k1", nid="bogus"), R("k1"), C("k1", nid="bogus"), C("k1", nid="bogus", nsig="kx"), C("k1", nid="bogus", nsig="none"), C("k1", nid="bogus", stt="forged"),
         C("k2", ck="k1", nid="own"), C("k2", ck="k1", nid="bogus"), C("k2", ck="k1", nid="other"), C("k2", nid="bogus"), D("k2")])
# the identical request presented again (same nonce and signatures), before and after the record is removed
for nidl in (False, True):
    beh("f02_replay" + ("n" if nidl else ""), ["C02"], cfg(nidl=nidl), [E("k1"), E("k2"), C("k1"), RPL(C("k1")), C("k1", stt="ok"), RPL(C("k1", stt="ok")), C("k2", nid="own"), R("k1"), RPL(C("k1")), RPL(C("k1", stt="ok")), C("k1"),
                                                                     RPL(C("k2", nid="own")), R("k2"), RPL(C("k2", nid="own")), RE, E("k3"), C("k3"), RPL(C("k3"))])
beh("f02_storeonce_native_nid", ["C02"], cfg(nidl=True, so=True), [E("k1"), E("k2"), C("k1", nid="own"), C("k1"), R("k1"), C("k1", nid="own"), C("k1"), C("k1", nid="own", stt="ok"), C("k2", nid="own"), D("k2"), R("k2"), C("k2", nid="own"), D("k2")])
beh("f07_two_handles", ["C07", "C02"], cfg(twoh=True), [NN("k1"), D("k1"), D("k1"), AP("k1"), D("k1"), D("k1"), NN("k2"), D("k2"), AP("k2"), D("k2"), E("k3"), D("k3"), C("k3"), R("k3"), C("k3"), D("k3")])
beh("f02_mixed", ["C02", "C14"], cfg(), [E("k1"), C("k1", kind="mixedFA"), C("k1", kind="mixedFA", ck="k2", chain="self"), C("k1", kind="mixedFA", priv=False), C("k1", kind="mixedAF"),
                                       C("k1", kind="mixedAF", ck="k3", chain="self"), D("k1")])
beh("f14_reset_after_fetch", ["C14"], cfg(), [E("k1"), M("resetAfterHandshake", "fetch"), D("k1"), M("resetAfterHandshake", "fetch"), M("resetAfterHandshake", "fetch"), D("k1"),
                                              C("k1", chain="selfNoSan"), C("k1", chain="selfNoSan", nsig="kx"), C("k1", ck="k2", chain="selfNoSan"), D("k1")])
for sw in (False, True):
    beh("f14_tokens" + ("w" if sw else ""), ["C14"], cfg(sw=sw), [E("k1"), M("unknownToken", "fetch"), D("k1"), M("garbageToken", "fetch"), M("unknownToken", "fetch"), D("k1")])
beh("f14_shapes", ["C14"], cfg(), [E("k1"), M("keyTrunc", "fetch"), M("keyHeaderOnly", "fetch"), M("keyLong", "fetch"), D("k1"), dict(C("k1", kind="base"), walpn=True), D("k1"),
                                   dict(C("k1", kind="base"), walpn=True), dict(C("k1"), xp="afterPref"), D("k1")])
beh("f14_aborts", ["C14"], cfg(), [E("k1"), M("clientAlert", "auth"), D("k1"), M("clientAlert", "fetch"), M("resetMidHello", "auth"), M("resetAfterHello", "fetch"), M("clientAlert", "pref"), D("k1"),
                                   M("rawSslv2"), M("rawOversizeRecord"), M("rawHttp"), M("rawBadVersion"), D("k1")])
beh("f02_nobase", ["C02"], cfg(base=False), [E("k1"), C("k1", kind="base"), C("k1"), C("k1", kind="fetch")])
beh("f16_meta", ["C16"], cfg(), [E("k1"), D("k1", "none", "none"), D("k1", "one", "empty"), D("k1", "many", "nested"), D("k1", "dups", "large"), D("k1", "prefixlike", "nested"),
                                 C("k1", stt="ok"), C("k1", stt="none", pref="none")])
beh("f16_names_and_overrides", ["C16"], cfg(), [E("k1"), D("k1", "none", "odd"), D("k1", "one", "odd"), D("k1", "containsPref", "none"), D("k1", "containsPref", "nested"), D("k1", "none", "overriddenNil"), D("k1", "many", "overriddenNil"), D("k1", "one", "nested")])
beh("f16_orders", ["C16", "C02"], cfg(), [E("k1")] + [dict(C("k1", stt=st, pref=pf), xp=xp) for xp in ("mid", "afterPref", "before", "split") for st in ("none", "ok") for pf in ("cur", "none")] + [D("k1", "many", "nested")])
beh("f16_listener_debug_logger", ["C16"], cfg(llog=True), [E("k1"), D("k1", "none", "none"), D("k1", "one", "empty"), D("k1", "many", "nested"), C("k1", stt="ok"), D("k1", "many", "large")])
beh("f16_listener_state", ["C16"], cfg(lstate=True), [E("k1"), D("k1", "none", "none"), D("k1", "one", "empty"), D("k1", "many", "nested"), C("k1", stt="none"), C("k1", stt="ok"), C("k1", stt="unsigned"),
                                                    NN("k2"), D("k2"), AP("k2"), D("k2", "none", "none"), D("k2", "one", "large")])
beh("f14_classes_auth", ["C14"], cfg(), [E("k1")] + [M(c, "auth") for c in ["empty", "short1", "short2", "nob64", "b64rand", "b64trunc", "oversize", "mixed", "dup", "badindex", "hugeEntry", "prefOnly",
                                                                              "nontls", "dropAfterHello", "dropMidHello", "silentClose"]] + [D("k1")])
beh("f14_classes_fetch", ["C14"], cfg(sw=True), [E("k1")] + [M(c, "fetch") for c in ["empty", "short1", "short2", "nob64", "b64rand", "b64trunc", "oversize", "mixed", "dup", "badindex", "hugeEntry",
                                                                                       "dropAfterHello", "dropMidHello"]] + [D("k1"), M("empty", "pref"), M("short1", "pref"), M("b64rand", "pref"), D("k1")])
G4 = [M("authStateGarbage", "auth")] * 4   # several in a row: whatever the listener may keep per processor gets its share
beh("f14_relay_and_state_garbage", ["C14"], cfg(), [E("k1"), M("rewrapNoKeyInfo", "fetch"), D("k1"), NN("k2"), AP("k2")] + G4 + [D("k2"), NN("k3")] + G4 + [D("k3"), AP("k3")] + G4 +
                                                    [D("k3"), M("rewrapNoKeyInfo", "fetch"), D("k1"), D("k2")])
beh("f14_state_garbage_unix", ["C14"], cfg(unix=True), [NN("k1"), AP("k1")] + G4 + [D("k1"), NN("k2"), AP("k2")] + G4 + [D("k2"), NN("k3"), AP("k3")] + G4 + [D("k3")])
# peers that keep a handshake open for 6.5 s while an honest node dials (open known finding KF-C14-2: Accept handshakes inline)
beh("kf_c14_stall", ["C14"], cfg(), [E("k1"), D("k1"), M("stallSilent"), D("k1"), M("stallPartial"), D("k1"), M("stallAfterHello", "fetch"), D("k1"), M("stallAfterHello", "auth"), D("k1")])
# adversarial library clients are remote input as well
beh("f14_clients", ["C14", "C02"], cfg(), [E("k1"), E("k2"), C("k1", pref="garbage"), D("k1"), C("k1", pref="next"), C("k1", pref="garbage", stt="ok"), C("k1", ck="k2", pref="garbage"), R("k2"), C("k2", pref="garbage"),
                                           C("k1", chain="self", pref="garbage"), C("k1", nsig="kx", pref="garbage"), D("k1"), RE, C("k1", pref="cur"), C("k1", pref="garbage"), D("k1"), E("k3"), D("k3")])
# open known finding KF-C14-1: application AEAD registration wrapper + short wrapped ciphertext
beh("kf_c14_wrappedshort", ["C14"], cfg(regw=True), [E("k1"), M("wrappedShort", "fetch"), D("k1"), M("b64rand", "fetch"), D("k1")])
for unix in (False, True):
    x = "u" if unix else ""
    beh("f07_unreg" + x, ["C07"], cfg(unix=unix, sw=unix), [NN("k1"), D("k1"), D("k1", "one", "nested"), AP("k1"), D("k1", "one", "nested"), D("k1"), NN("k2"), D("k2"), E("k3"), D("k3", "many")])
    beh("f07_rogues" + x, ["C07"], cfg(unix=unix), [E("k1")] + [RG("k1", k, ex) for k in ROGUES for ex in ("none", "many")] + [D("k1", "many", "large")])
# the listener's options carry a zero not-after clock skew: registered and newly authorised nodes connect all the same
beh("f07_lskew", ["C07", "C02"], cfg(lskew=True), [E("k1"), D("k1"), D("k1", "one", "nested"), C("k1"), NN("k2"), D("k2"), AP("k2"), D("k2"), D("k2", "many"), RG("k1", "foreign")])
# real time: the server rotates once the node's second chain is valid; the node must still connect (through its second chain)
for i in range(3):
    beh("f07_rotate%d" % i, ["C07", "C09"], cfg(life=8, sw=(i == 1)), [E("k1"), D("k1"), RW] + [D("k1", ex, st) for ex, st in [("none", "none"), ("one", "nested"), ("many", "none")] * 6] + [RG("k1", "foreign"), RG("k1", "staleNonce")])
# real time: the current root expires before the operator rotates; registered nodes still connect (second chain), an
# unregistered node is told it is not authorised and succeeds with the same key once authorised
EW = dict(op="ExpireWait")
for i in range(2):
    beh("f07_expired%d" % i, ["C07", "C09"], cfg(life=8, sw=(i == 1)), [E("k1"), D("k1"), NN("k2"), D("k2"), EW, D("k1"), D("k2"), D("k2", "one", "nested"), AP("k2"), D("k2"), D("k2", "many"), NN("k3"), D("k3"),
                                                                     D("k1", "one", "nested"), RG("k1", "foreign")])
# real time, adversarial clients across the phases of the root pair: "certified by a CURRENTLY VALID root" is the time-dependent
# half of C02 (8 s roots: early [0,4) overlap [4,8); after the promotion early again until ~8.6, late from 12)
WO = dict(op="WaitOverlap")
for nidl in (False, True):
    beh("f02_phases" + ("n" if nidl else ""), ["C02", "C07"], cfg(life=8, nidl=nidl),
        [E("k1"), C("k1"), C("k1", chain="b1"), C("k1", pref="next"), C("k1", chain="b1", pref="next"), WO,
         C("k1"), C("k1", chain="b1"), C("k1", chain="b1", pref="next"), C("k1", pref="next"), C("k1", chain="b1", priv=False), E("k2"), D("k1"), RW,
         C("k1"), C("k1", chain="b1"), C("k1", chain="b1", pref="next"), C("k2", chain="b1", pref="none"), D("k1"), D("k2"), E("k3"), C("k3"), C("k3", chain="b1"), C("k3", ck="k1", chain="b1"), EW,
         C("k1", chain="b1"), C("k3"), C("k3", chain="b1", pref="next"), C("k3", chain="b1", pref="cur"), C("k3", chain="b1", pref="none"), C("k3", chain="b1", pref="next", nsig="kx"), D("k3")])
def RN(k): return dict(op="RotateNode", k=k)
def DP(k): return dict(op="DialPrev", k=k)
def RP(k): return dict(op="RemovePrev", k=k)
for nidl in (False, True):
    beh("fsys_rotate_node" + ("n" if nidl else ""), ["C02", "C07"], cfg(nidl=nidl), [E("k1"), D("k1"), RN("k1"), D("k1"), DP("k1"), C("k1"), RP("k1"), DP("k1"), D("k1"), RN("k1"), DP("k1"), D("k1"),
                                                                                  R("k1"), D("k1"), DP("k1"), RN("k1"), RE, D("k1"), DP("k1")])
with open(os.path.join(HERE, "fixed", "hs.ndjson"), "w") as f:
    for b in B:
        f.write(json.dumps(b, separators=(",", ":")) + "\n")
print(len(B))
