"""Pure-function / data families: C20 (Alpn), C11 C12 (Seal), C19 (Store)."""
import random


def alpn_extra(prop, tier, seed):
    rnd = random.Random(seed)
    MAXLEN = 57138      # largest base64 payload a Go TLS 1.3 ClientHello delivers for the fetch prefix (measured)
    out = []
    for pfx, budget in (("fetch", 214), ("auth", 213)):
        if tier == "thorough":
            lens = list(range(1, MAXLEN + 1))
        else:
            lens = set([1, 2, 3, budget - 1, budget, budget + 1, 2 * budget, 99 * budget, 99 * budget + 1, 100 * budget - 1, 100 * budget,
                        100 * budget + 1, 101 * budget, 101 * budget + 1, 150 * budget + 7, MAXLEN - 1, MAXLEN])
            while len(lens) < 400:
                lens.add(rnd.randint(1, MAXLEN))
            lens = sorted(lens)
        for bi in range(0, len(lens), 2000):
            ops = []
            for j, n in enumerate(lens[bi:bi + 2000]):
                if j % 40 == 0:
                    # a rejected list (good entries, then a bad one) in between: later round trips must not see any of it
                    ops.append(dict(op="Mal", pfx=pfx, cls="goodThenBad"))
                ops.append(dict(op="RT", pfx=pfx, n=n, alpha="b64"))
            out.append(dict(id="rt_%s_%d" % (pfx, bi), ops=ops))
        # other payload alphabets (the property speaks of every payload): percent signs / format verbs, printable ASCII, any byte
        alens = sorted(set([1, 2, budget - 1, budget, budget + 1, 3 * budget + 5, 100 * budget, 101 * budget + 1] + [rnd.randint(1, MAXLEN // 3) for _ in range(60 if tier == "quick" else 3000)]))
        for alpha in ("pct", "print", "bytes"):
            out.append(dict(id="rt_%s_%s" % (pfx, alpha), ops=[dict(op="RT", pfx=pfx, n=n, alpha=alpha) for n in alens]))
        mal = [dict(op="Mal", pfx=pfx, cls=c) for c in ["bare", "short1", "short2", "nodash", "onlydash", "mixedshort", "empties", "none", "goodThenBad"]]
        mal += [dict(op="Mal", pfx=pfx, cls="random") for _ in range(200 if tier == "quick" else 5000)]
        out.append(dict(id="mal_%s" % pfx, ops=mal))
    return out


def alpn_family():
    return dict(
        corrupt=lambda l: l["obs"].update(rt=False, panic=False) if l["op"]["op"] == "RT" else l["obs"].update(panic=True),
        driver="alpn", trace_module="AlpnTrace.tla",
        trace_consts={"Budget": "214", "Radix": "10", "Decoder": '"dash"'},
        level="model_checking", fixed=None,
        nontrivial=lambda prop, l: l["op"]["op"] == "RT" and l["obs"]["count"] > 1,
        mc=dict(quick=[("MC_Alpn.tla", "MC_Alpn_dash.cfg")], thorough=[("MC_Alpn.tla", "MC_Alpn_dash.cfg"), ("MC_Alpn.tla", "MC_Alpn_dash_big.cfg")]),
        # the fixed-width decoder (as shipped before the fix) must fail on the scaled model: the three-digit case is reached
        witness=dict(quick=[("MC_Alpn.tla", "MC_Alpn_fixed3_w.cfg", "InvRoundTrip")], thorough=[("MC_Alpn.tla", "MC_Alpn_fixed3_w.cfg", "InvRoundTrip")]),
        gen=[], extra=alpn_extra,
        rule={"*": "RT lines: the real Break/Combine on a seeded random base64 payload of length n, also with unrelated / other-prefix / empty names interleaved; quick = boundary lengths around 1, 100 and 101 chunks and the ClientHello limit + seeded lengths, thorough = every length 1..57138 for both prefixes; Mal lines: entry lists that are malformed under the prefix; non-trivial = multi-chunk round trips"},
        assumptions=["TLC checks the chunk arithmetic on scaled constants (budget 3, radix 3) for every length up to 3x the third-digit point; the real constants are covered by running the real functions on every length (thorough) and judging each run with TLC",
                     "payload content is random over four alphabets: base64 (what the library feeds in), base64 with percent signs and format verbs, printable ASCII, arbitrary bytes"],
    )


# ------------------------------------------------------------------ C19
import glob
import json
import os
import subprocess

from lib import library_races, Broken, build_harness, write_ndjson, read_ndjson, tlc, parse_tuple_fields, replay_path, log

STORE_GEN_CFG = "SPECIFICATION Spec\nCONSTANTS\n  Ids = {\"a\",\"b\"}\n  Vals = {\"v1\",\"v2\"}\n  RemoveAbsentErr = FALSE\n  StoreOnce = FALSE\n  Depth = 14\nCHECK_DEADLOCK FALSE\n"
BACKENDS = {"inmem": dict(RemoveAbsentErr="FALSE", StoreOnce="FALSE"),
            "file": dict(RemoveAbsentErr="TRUE", StoreOnce="FALSE"),
            "filemeta": dict(RemoveAbsentErr="TRUE", StoreOnce="FALSE"),
            "file2": dict(RemoveAbsentErr="TRUE", StoreOnce="FALSE"),        # two handles on one directory     # file back end in a directory whose name holds glob metacharacters
            "storeonce": dict(RemoveAbsentErr="FALSE", StoreOnce="TRUE")}


def store_materialise(scr):
    open(os.path.join(scr.spec, "StoreGen_a.cfg"), "w").write(STORE_GEN_CFG)


def store_conc_instances(tier, seed):
    rnd = random.Random(seed * 31 + 7)
    out = []
    n = 150 if tier == "quick" else 2500
    for i in range(n):
        clients = []
        for c in range(3):
            prog = []
            for _ in range(rnd.choice([2, 2, 3])):
                k = rnd.choice(["Store", "Store", "Load", "Load", "Remove", "List"])
                t = rnd.choice(["ni", "ni", "tk", "nc"])
                idv = rnd.choice(["a", "a", "b"])
                if k == "Store":
                    prog.append(dict(op=k, t=t, id=idv, v=rnd.choice(["v1", "v2"])))
                elif k == "List":
                    prog.append(dict(op=k, t=rnd.choice(["ni", "nc"]), id="", v="absent"))
                else:
                    prog.append(dict(op=k, t=t, id=idv, v="absent"))
            clients.append(prog)
        out.append(dict(id="cc%d" % i, cfg=dict(backend="inmem", mode="conc"), ops=[], clients=clients))
    return out


def store_lin(scr, insts, tag, seed):
    exe = build_harness(scr, race=True)
    inp, outp = scr.path("sc_%s.ndjson" % tag), scr.path("sct_%s.ndjson" % tag)
    write_ndjson(inp, insts)
    racelog = scr.path("race_store_%s" % tag)
    env = dict(os.environ, GORACE="log_path=%s halt_on_error=0 exitcode=0" % racelog)
    p = subprocess.run([exe, "store", "-in", inp, "-out", outp, "-seed", str(seed), "-par", "4"], stdout=subprocess.PIPE, stderr=subprocess.STDOUT,
                       text=True, env=env, timeout=1800)
    if p.returncode != 0:
        raise Broken("store driver failed: %s" % p.stdout[-2000:])
    races, own = [], []
    for f in glob.glob(racelog + "*"):
        a, b = library_races(open(f).read())
        races += a
        own += b
    if own:
        print("NOTE %d race report(s) between two accesses of the harness' own bookkeeping ignored" % len(own))
    lines = read_ndjson(outp)
    cfg = ("SPECIFICATION Spec\nCONSTANTS\n  Ids = {\"a\",\"b\"}\n  Vals = {\"v1\",\"v2\"}\n  RemoveAbsentErr = FALSE\n  StoreOnce = FALSE\n"
           "  TraceFile = \"trace.ndjson\"\n  Props = {\"C19\"}\n  TMode = \"lin\"\n  Clients = {\"c1\",\"c2\",\"c3\"}\nCONSTRAINT HighWater\nPOSTCONDITION Report\nCHECK_DEADLOCK FALSE\n")
    open(os.path.join(scr.spec, "StoreTrace_lin.cfg"), "w").write(cfg)
    unexplained = []
    todo = lines
    states = 0
    for attempt in range(6):
        if not todo:
            break
        write_ndjson(os.path.join(scr.spec, "trace.ndjson"), todo)
        out, rc, wall = tlc(scr, "StoreTrace.tla", "StoreTrace_lin.cfg", timeout=1200, workers=1, dfs=True)
        hw = None
        for line in out.splitlines():
            if line.startswith('<<"HIGHWATER"'):
                f = parse_tuple_fields(line)
                hw = (f[1], f[2])
        import re
        mm = None
        for mm in re.finditer(r"(\d+) states generated, (\d+) distinct states found", out):
            pass
        states += int(mm.group(2)) if mm else 0
        if hw is None or "Error:" in out:
            raise Broken("linearisation run failed:\n" + out[-2000:])
        if hw[0] >= hw[1] + 1:
            todo = []
            break
        bad = todo[min(hw[0], len(todo)) - 1]["tr"]
        unexplained.append(bad)
        idx = [k for k, l in enumerate(todo) if l["tr"] == bad]
        todo = todo[idx[-1] + 1:]
    return lines, unexplained, races, states


def store_post(prop, tier, seed, scr, coverage, known):
    insts = store_conc_instances(tier, seed)
    by_id = {i["id"]: i for i in insts}
    lines, unexplained, races, states = store_lin(scr, insts, "main", seed)
    reported = 0
    for u in unexplained[:5]:
        rp = replay_path(prop, "%s-s%s" % (u, seed))
        json.dump(dict(property=prop, seed=seed, behaviour=by_id[u], kind="concurrent", recorded=[l for l in lines if l["tr"] == u]), open(rp, "w"), indent=1)
        print("VIOLATION property=%s replay=%s  # clause=concurrent-history-has-no-linearisation instance=%s" % (prop, rp, u))
        reported += 1
    if races:
        rp = replay_path(prop, "race-s%s" % seed)
        json.dump(dict(property=prop, seed=seed, behaviour=insts[0], race_reports=races[:2]), open(rp, "w"), indent=1)
        print("VIOLATION property=%s replay=%s  # clause=data-race (Go race detector)" % (prop, rp))
        reported += 1
    coverage["concurrent_histories"] = len(insts)
    coverage["concurrent_histories_linearised"] = len(insts) - len(unexplained)
    coverage["traces_validated_against_impl"] += len(insts) - len(unexplained)
    coverage["states"] += states
    coverage["race_reports"] = len(races)
    return reported


def store_family():
    return dict(
        driver="store", trace_module="StoreTrace.tla",
        trace_consts={"Ids": '{"a","b"}', "Vals": '{"v1","v2"}', "TMode": '"seq"', "Clients": '{"c1"}'},
        partition=(lambda l: l["cfg"]["backend"], BACKENDS),
        level="model_checking", fixed="fixed/store.ndjson", materialise=store_materialise,
        nontrivial=lambda prop, l: l["op"]["t"] in ("ni", "nc", "rc", "tk"),
        mc=dict(quick=[("MC_Store.tla", "MC_Store_FALSE.cfg"), ("MC_Store.tla", "MC_Store_TRUE.cfg")],
                thorough=[("MC_Store.tla", "MC_Store_FALSE.cfg"), ("MC_Store.tla", "MC_Store_TRUE.cfg")]),
        gen=[dict(module="StoreGen.tla", cfg="StoreGen_a.cfg", depth=14, num=dict(quick=60, thorough=1500), tag=b,
                  beh_cfg=dict(backend=b, mode="seq")) for b in ("inmem", "file", "storeonce", "filemeta", "file2")],
        post=store_post,
        rule={"*": "sequential: TLC-generated operation sequences (store/load/remove/list over 2 ids x 4 types + unknown and nil types + empty ids) executed on the in-memory, file and store-once back ends, each call judged against the map model with the back end's parameters; concurrent: seeded 3-client programs on the in-memory back end under the race detector, TLC searches a linearisation of each recorded history"},
        assumptions=["pre/post projections are read through the back end's own Load; the file back end runs in a temporary directory",
                     "data races are decided by the Go race detector; linearisability by TLC (StoreTrace.tla, lin mode)"],
    )


# ------------------------------------------------------------------ C17
SPLIT_GEN_CFG = "SPECIFICATION Spec\nCONSTANTS\n  Specific = {\"sp1\",\"sp2\"}\n  Depth = 9\nCHECK_DEADLOCK FALSE\n"


def split_materialise(scr):
    open(os.path.join(scr.spec, "SplitGen_a.cfg"), "w").write(SPLIT_GEN_CFG)


class _Flat(dict):
    pass


def split_extra(prop, tier, seed):
    """every registry (subset of sp1, sp2, __AUTH__, __UNAUTH__; native flags on a rotating subset) x a fixed client battery"""
    import itertools
    rnd = random.Random(seed)
    LONG = "sp3-a-protocol-name-longer-than-thirty-two-bytes"
    names = ["sp1", LONG, "__AUTH__", "__UNAUTH__"]
    clients = [("node", []), ("node", ["sp1"]), ("node", ["zz", LONG]), ("node", [LONG]), ("nodeAfter", [LONG]), ("node", ["__UNAUTH__"]), ("node", ["__AUTH__", "sp1"]), ("node", ["zz"]),
               ("base", []), ("base", ["sp1"]), ("base", ["__AUTH__"]), ("base", ["sp2", "__UNAUTH__"]), ("base", ["zz"]), ("fetch", ["sp1"]),
               ("rogue", []), ("node", ["sp1"]), ("rogue", ["__AUTH__"]), ("rogue", ["sp1"]), ("node", []),
               ("nodeAfter", ["sp1"]), ("nodeAfter", ["zz", "sp2"]), ("nodeBefore", ["sp2"]), ("nodeAfter", [])]
    regs = []
    for k in range(len(names) + 1):
        for sub in itertools.combinations(names, k):
            regs.append(list(sub))
    if tier == "quick":
        regs = [r for i, r in enumerate(regs) if i % 2 == 0]
    out = []
    for i, reg in enumerate(regs):
        native = [n for j, n in enumerate(reg) if (i + j) % 3 == 0]
        # every other registry runs over a base listener that reports its closure with an error of its own
        # every third registry requests some of its sub-listeners only after Start is running
        late = [n for j, n in enumerate(reg) if i % 3 == 1 and j % 2 == 0]
        cl = [dict(op="Client", kind=k, extras=e) for (k, e) in clients]
        # a node with a large client state (many more ALPN chunks) offering its protocols, and - half way - a second,
        # option-less lookup of every registered sub-listener
        cl.insert(4, dict(op="Client", kind="node", extras=[LONG], st="big"))
        cl.insert(9, dict(op="Client", kind="node", extras=["sp1"], st="big"))
        half = len(cl) // 2
        cl = cl[:half] + [dict(op="Lookup", name=n) for n in reg] + cl[half:]
        ops = [dict(op="Config", reg=reg, native=native, closeErr=("custom" if i % 2 else "std"), late=late)] + cl + [dict(op="CloseBase")]
        out.append(dict(id="reg%d" % i, ops=ops))
    return out


def split_family():
    fam = dict(
        driver="split", trace_module="SplitTrace.tla", trace_consts={"Specific": '{"sp1","sp2","sp3-a-protocol-name-longer-than-thirty-two-bytes"}'},
        level="model_checking", fixed="fixed/split.ndjson", materialise=split_materialise,
        nontrivial=lambda prop, l: l["op"]["op"] == "Client",
        mc=dict(quick=[("MC_Split.tla", "MC_Split.cfg")], thorough=[("MC_Split.tla", "MC_Split.cfg")]),
        gen=[dict(module="SplitGen.tla", cfg="SplitGen_a.cfg", depth=9, num=dict(quick=40, thorough=1200), tag="a", beh_cfg={})],
        extra=split_extra,
        rule={"*": "TLC draws a registry (any subset of two specific names, __AUTH__, __UNAUTH__, each possibly with native connections) and a sequence of clients (authenticated node with 0-2 extra protocol names incl. the reserved ones, base-TLS client offering arbitrary names, fetch-only client), then closes the base listener; a real SplitListener over a real InterceptingListener is driven accordingly and every delivery is judged by TLC"},
        assumptions=["a connection not handed out by any sub-listener within 400 ms counts as closed",
                     "an application whose own base TLS configuration advertises a library-prefixed protocol is outside the quantifier"],
    )
    return fam


# ------------------------------------------------------------------ C11 C12
SEAL_CONSTS = {"NodeKeys": '{"e1","e2"}', "ServerKeys": '{"g1","g2"}', "KeyIds": '{"k1","k2","k0"}'}
SEAL_GEN_CFG = "SPECIFICATION Spec\nCONSTANTS\n  NodeKeys = {\"e1\",\"e2\"}\n  ServerKeys = {\"g1\",\"g2\"}\n  KeyIds = {\"k1\",\"k2\",\"k0\"}\n  Depth = 12\nCHECK_DEADLOCK FALSE\n"


def seal_materialise(scr):
    open(os.path.join(scr.spec, "SealGen_a.cfg"), "w").write(SEAL_GEN_CFG)


def seal_extra(prop, tier, seed):
    """exhaustive single-bit flips and truncations of one envelope per message type (C11), and the full record matrix (C12)"""
    out = []
    P = lambda e, g, k: dict(e=e, g=g, k=k)
    none = P("none", "none", "none")
    if prop == "C11":
        msgs = ["fetchreq", "creds", "tiny", "empty"] if tier == "quick" else ["fetchreq", "fetchresp", "creds", "tiny", "reginfo", "empty"]
        # empty key ids on either side, current or previous, and messages whose encoding is empty
        ids = ["k1", "k0"]
        ops = []
        for m in ("empty", "tiny", "creds"):
            for sk in ids:
                for rk in ids:
                    for pk in ids:
                        for sside, rside in (("node", "server"), ("server", "node")):
                            ops.append(dict(op="Crypt", msg=m, sside=sside, rside=rside, s=P("e1", "g1", sk), rcur=P("e1", "g1", rk), rprev=none, tamper="none", sid="keyid", rid="keyid"))
                            ops.append(dict(op="Crypt", msg=m, sside=sside, rside=rside, s=P("e1", "g1", sk), rcur=P("e2", "g2", rk), rprev=P("e1", "g1", pk), tamper="none", sid="keyid", rid="keyid"))
                            ops.append(dict(op="Crypt", msg=m, sside=sside, rside=rside, s=P("e1", "g1", sk), rcur=P("e2", "g2", rk), rprev=P("e1", "g1", pk), tamper="none", sid="keyid", rid="keyid", rstore=True))
                            ops.append(dict(op="Crypt", msg=m, sside=sside, rside=rside, s=P("e1", "g1", sk), rcur=P("e1", "g1", rk), rprev=none, tamper="none", sid="keyid", rid="keyid", retain=True))
        out.append(dict(id="x11_ids", ops=ops))
        for mi, m in enumerate(msgs):
            for variant, (rc, rp) in enumerate([(P("e1", "g1", "k1"), none), (P("e2", "g2", "k2"), P("e1", "g1", "k1"))]):
                step = 7 if tier == "quick" else 1
                ops = []
                for i in range(0, 1200 if tier == "quick" else 6000, step):
                    ops.append(dict(op="Crypt", msg=m, sside="node", rside="server", s=P("e1", "g1", "k1"), rcur=rc, rprev=rp, tamper="flip", at=i))
                for i in range(0, 200 if tier == "quick" else 800, 3 if tier == "quick" else 1):
                    ops.append(dict(op="Crypt", msg=m, sside="server", rside="node", s=P("e1", "g1", "k1"), rcur=rc, rprev=rp, tamper="trunc", at=i))
                out.append(dict(id="x11_%s_%d" % (m, variant), ops=ops))
    if prop == "C12":
        ops = []
        for t, opt in (("roots", []), ("token", []), ("nodeinfo", ["prev.priv"]), ("nodecreds", ["nonce", "prev.priv"])):
            import itertools
            for k in range(len(opt) + 1):
                for sub in itertools.combinations(opt, k):
                    for wr in (True, False):
                        for ws in (False, True):
                            ops.append(dict(op="Rec", t=t, present=list(sub), wrapper=wr, withState=ws, rot=False))
                            if t == "nodeinfo" and wr:
                                ops.append(dict(op="Rec", t=t, present=list(sub), wrapper=wr, withState=ws, rot=False, rekey=True))
                            if t == "nodecreds" and "nonce" in sub:
                                ops.append(dict(op="Rec", t=t, present=list(sub), wrapper=wr, withState=ws, rot=False, longNonce=True))
                            if wr:
                                ops.append(dict(op="Rec", t=t, present=list(sub), wrapper=wr, withState=ws, rot=True))
        for n in ("authorize", "token", "rotate", "rotateNamed", "dial", "dialtoken", "tokenRefused"):
            for ws in (False, True):
                ops.append(dict(op="Flow", name=n, withState=ws))
        out.append(dict(id="x12_matrix", ops=ops))
    return out


def seal_family(prop):
    return dict(
        corrupt=(lambda l: l.update(res="ok-different")) if prop == "C11" else
                (lambda l: l["obs"].update(loadNone="equal", clear=["NodeCredentials:node.cert.priv"])),
        driver="seal", trace_module="SealTrace.tla", trace_consts=SEAL_CONSTS, level="model_checking", fixed=None,
        materialise=seal_materialise,
        nontrivial=lambda p, l: (l["op"]["op"] == "Crypt") if p == "C11" else ((l["op"]["op"] == "Rec" and bool(l["op"].get("wrapper")) and l["res"] == "ok") or (l["op"]["op"] == "Flow" and l["res"] == "ok")),
        mc=dict(quick=[("MC_Seal.tla", "MC_Seal.cfg")], thorough=[("MC_Seal.tla", "MC_Seal.cfg")]),
        gen=[dict(module="SealGen.tla", cfg="SealGen_a.cfg", depth=12, num=dict(quick=60, thorough=1500), tag="a", beh_cfg={})],
        extra=seal_extra,
        rule={"C11": "Crypt lines: sender pair x receiver current/previous pair (matching, one component changed, random) x both sides x five message types x tamper class drawn by TLC, plus driver-built exhaustive single-bit flips and truncations of one envelope per message type; every outcome judged by the symbolic Dec of Seal.tla",
              "C12": "Rec lines: the full matrix record type x optional-field subset x wrapper on/off (stored bytes inspected, reload with same / no / other wrapper, transplant of a sealed field from a sibling record); Flow lines: operator-authorised, token, refused-second-token and rotation flows with storage wrappers on both sides, every message handed to storage searched for the run's secrets, at the time of the Store call and again at the end of the flow (a write-behind back end serialises the object it was handed later)"},
        assumptions=["AES-GCM / X25519 strength is trusted; what is checked is which key, key id and associated data the code uses",
                     "secrets are searched as raw byte strings in the marshalled messages handed to Storage.Store"],
    )


# ------------------------------------------------------------------ C13
FAULT_FLOWS = ["authorize", "fetchNodeLed", "fetchToken", "fetchWrapped", "fetchRewrapped", "createToken", "rotateRoots", "rotateRoots0", "reinitRoots",
               "rotateNode", "serverCerts", "serverCertsNodeId", "serverCertsAgain", "nodeNew", "nodeHandle", "nodeHandleTokenRetry", "nodeDialFirst"]


def faults_extra(prop, tier, seed):
    out = []
    for sw in ((False,) if tier == "quick" else (False, True)):
        for flow in FAULT_FLOWS:
            ops = [dict(op="Fault", flow=flow, pos=0, kind="generic", sw=sw)]
            for pos in range(1, 9):
                for kind in ("generic", "notfound", "cancelled", "ctxdone"):
                    ops.append(dict(op="Fault", flow=flow, pos=pos, kind=kind, sw=sw))
            out.append(dict(id="flt_%s_%s" % (flow, "sw" if sw else "plain"), ops=ops))
    return out


def faults_family():
    return dict(
        driver="faults", trace_module="FaultsTrace.tla", trace_consts={}, level="fault_enumeration", fixed=None,
        nontrivial=lambda p, l: l["op"]["pos"] > 0 and l["res"] != "skip",
        mc=dict(quick=[("MC_Faults.tla", "MC_Faults.cfg")], thorough=[("MC_Faults.tla", "MC_Faults.cfg")]),
        gen=[], extra=faults_extra,
        rule={"*": "for each of 17 flows (authorize, fetch in node-led / token / wrapped / re-wrapped mode, token creation, root rotation from existing and from empty storage, reinitialisation, node credential rotation, server-certificate generation (by key id, by node id, and a second call after a fault-free first one), node-side create, handle, handle-with-retry of a server-led response, and the first protocol.Dial of an authorised node against a real listener) the storage operations of the call are counted on a fault-free run of the REAL code, then the call is re-run once per (position, kind in generic / not-found / cancelled / context really cancelled while the operation itself succeeds) with exactly that operation failing; non-trivial = runs with an injected fault; thorough adds the storage-wrapper variant"},
        assumptions=["single faults only; positions are enumerated from the real run, the spec's operation sequences are compared as drift",
                     "the bystander record of another node and the token record are read from the inner storage, bypassing injection"],
    )


# ------------------------------------------------------------------ C04
def enrol_extra(prop, tier, seed):
    out = []
    n = 0
    flows = ["operator", "token", "wrapped", "rewrapped"]
    for flow in flows:
        for be in ("inmem", "file", "storeonce"):
            ops = []
            for sw in (False, True):
                for state in ("none", "s1"):
                    for params in ((False, True) if flow in ("wrapped", "rewrapped") else (False,)):
                        ops.append(dict(op="Enrol", flow=flow, backend=be, sw=sw, state=state, params=params, subst="none", rekey=False))
                # the application passes its certificate-lifetime option to the enrolment calls as well
                ops.append(dict(op="Enrol", flow=flow, backend=be, sw=sw, state="none", params=False, subst="none", rekey=False, lifeOpt=True))
                # the same identity fetches a second time with a replaced encryption key (wrapper flows authorise from the request)
                if flow in ("wrapped", "rewrapped"):
                    ops.append(dict(op="Enrol", flow=flow, backend=be, sw=sw, state="none", params=False, subst="none", rekey=True))
                    # the server's roots are replaced and the node registers again with the very same credentials
                    ops.append(dict(op="Enrol", flow=flow, backend=be, sw=sw, state="none", params=False, subst="none", rekey=False, reroot=True))
            # short-lived roots rotated lazily: the node enrols after the current root has expired, before the next rotation call
            if be == "inmem" or tier != "quick":
                ops.append(dict(op="Enrol", flow=flow, backend=be, sw=False, state="none", params=False, subst="none", rekey=False, roots="curExpired"))
            # node-side substitutions (one storage configuration per flow x back end in quick, all in thorough)
            for sw in ((False,) if tier == "quick" else (False, True)):
                for subst in ("wrongKey", "tamper", "wrongServerPub", "nonce32", "nonceToken", "swapBundles"):
                    ops.append(dict(op="Enrol", flow=flow, backend=be, sw=sw, state="none", params=False, subst=subst, rekey=False))
            n += 1
            out.append(dict(id="enr_%s_%s" % (flow, be), ops=ops))
    return out


def enrol_family():
    return dict(
        corrupt=lambda l: l["obs"].update(refused=False) if l["op"]["subst"] != "none" else l["obs"].update(echo=False),
        driver="enrol", trace_module="EnrollTrace.tla", trace_consts={}, trace_spec="TSpec", level="model_checking", fixed=None,
        nontrivial=lambda p, l: l["res"] in ("issued", "subst"),
        mc=dict(quick=[("Enroll.tla", "MC_Enroll.cfg")], thorough=[("Enroll.tla", "MC_Enroll.cfg")]),
        gen=[], extra=enrol_extra,
        rule={"*": "the full product flow (operator / token / wrapped / re-wrapped) x back end (in-memory, file, store-once) x storage wrapper x application state (x application params for the wrapper flows) of honest enrolments, each followed by ClientConfigs and a real protocol.Dial, plus six node-side substitutions of key or response fields per flow x back end, plus (wrapper flows) a second fetch of the same identity with a replaced encryption key, plus an enrolment made after the current root has expired and before the next rotation call (10 s roots); every observation judged by TLC against HonestViolations"},
        assumptions=["the enrolment itself is run through the public functions (not over the network); the dial afterwards goes through a real InterceptingListener over the same server storage",
                     "TLC checks completion (liveness under weak fairness) and the refuse-unless-bound rule of the node on the Enroll.tla model for every configuration"],
    )


# ------------------------------------------------------------------ C15
def iso_extra(prop, tier, seed):
    out = []
    n = 0
    spares = [0, 1, 3] if tier == "quick" else [0, 1, 2, 3, 8]
    pairs = [("token", "token", "tokenRemove"), ("token", "auth", "tokenRemove"), ("token", "rejected", "tokenRemove"),
             ("auth", "auth", "genBefore"), ("auth", "auth", "genAfter"), ("auth", "token", "genBefore"), ("auth", "token", "genAfter"),
             ("auth", "rejected", "genBefore"), ("rejected", "auth", "genBefore"), ("rejected", "token", "genBefore")]
    for sp in spares:
        ops = [dict(op="Schedule", a=a, b=b, gate=g, spare=sp, lstate=False) for (a, b, g) in pairs]
        n += 1
        out.append(dict(id="sch_spare%d" % sp, ops=ops))
    # plain application TLS clients offering different ALPN names through a base configuration that lists none (handled one
    # after the other), and handshakes held up at an unwrap of a stored key (storage wrapper = KMS round trips) while another runs
    out.append(dict(id="sch_base", ops=[dict(op="Schedule", a=a, b=b, gate="none", spare=0, lstate=False, bare=bare, sw=False)
                                         for bare in (True, False) for (a, b) in (("baseA", "baseB"), ("baseB", "baseA"), ("baseA", "auth"), ("auth", "baseB"))]))
    # a refused enrolment (registered key + fresh token) followed by an unrelated enrolment / authentication
    out.append(dict(id="sch_after_refusal", ops=[dict(op="Schedule", a="tokenDup", b=b, gate="none", spare=0, lstate=False, bare=False, sw=sw)
                                                  for sw in (False, True) for b in ("token", "auth", "tokenDup")]))
    out.append(dict(id="sch_unwrap", ops=[dict(op="Schedule", a=a, b=b, gate=g, spare=sp, lstate=False, bare=False, sw=True)
                                           for sp in (0, 2) for g in ("unwrap1", "unwrap2", "unwrap3") for (a, b) in (("auth", "auth"), ("auth", "token"), ("token", "auth"))]))
    # two requests of ONE node identity overlap: its poll (not authorised yet) is held at the record lookup while the same
    # keys enrol with an activation token, and the other way round
    out.append(dict(id="sch_same_identity", ops=[dict(op="Schedule", a="poll", b="tokenSame", gate=g, spare=0, lstate=False, bare=False, sw=sw)
                                                  for sw in (False, True) for g in ("niLoad", "none")] +
                                                 [dict(op="Schedule", a="poll", b="token", gate="niLoad", spare=0, lstate=False, bare=False, sw=False),
                                                  dict(op="Schedule", a="poll", b="auth", gate="niLoad", spare=2, lstate=False, bare=False, sw=False)]))
    # the listener's own options carry a state VALUE shared by every handshake
    out.append(dict(id="sch_lstate", ops=[dict(op="Schedule", a=a, b=b, gate=g, spare=sp, lstate=True) for sp in (0, 2) for (a, b, g) in pairs]))
    for r in range(3 if tier == "quick" else 40):
        out.append(dict(id="mix_%d" % r, ops=[dict(op="Mix", spare=[0, 2, 8][r % 3], a="none", b="none", gate="none", lstate=(r % 2 == 1))]))
    return out


def iso_post(prop, tier, seed, scr, coverage, known):
    """race detector on the free-running mixes"""
    insts = [dict(id="race_%d" % r, ops=[dict(op="Mix", spare=[2, 8, 0][r % 3], a="none", b="none", gate="none", lstate=(r % 2 == 0))]) for r in range(4 if tier == "quick" else 60)]
    exe = build_harness(scr, race=True)
    inp, outp = scr.path("iso_race.ndjson"), scr.path("iso_race_out.ndjson")
    write_ndjson(inp, insts)
    racelog = scr.path("race_iso")
    env = dict(os.environ, GORACE="log_path=%s halt_on_error=0 exitcode=0" % racelog)
    p = subprocess.run([exe, "iso", "-in", inp, "-out", outp, "-seed", str(seed), "-par", "2"], stdout=subprocess.PIPE, stderr=subprocess.STDOUT, text=True, env=env, timeout=1800)
    if p.returncode != 0:
        raise Broken("iso race run failed: %s" % p.stdout[-2000:])
    # only races in which the library makes at least one of the two accesses count (not the harness' own bookkeeping)
    races, own = [], []
    for f in glob.glob(racelog + "*"):
        a, b = library_races(open(f).read())
        races += a
        own += b
    if own:
        print("NOTE %d race report(s) between two accesses of the harness' own bookkeeping ignored" % len(own))
    coverage["race_detector_mixes"] = len(insts)
    coverage["race_reports"] = len(races)
    if races:
        rp = replay_path(prop, "race-s%s" % seed)
        json.dump(dict(property=prop, seed=seed, behaviour=insts[0], race_reports=races[:2]), open(rp, "w"), indent=1)
        print("VIOLATION property=%s replay=%s  # clause=data-race on listener/option state (Go race detector)" % (prop, rp))
        return 1
    return 0


def iso_family():
    mcs = [("MC_OptSlice.tla", "MC_OptSlice_%s_%d_perconn.cfg" % (k, sp)) for k in ("TokTok", "TokAuth", "AuthAuth", "AuthRej") for sp in (0, 2)]
    wit = [("MC_OptSlice.tla", "MC_OptSlice_w_app.cfg", "NoSharedWrite"), ("MC_OptSlice.tla", "MC_OptSlice_w_listener.cfg", "Isolation")]
    return dict(
        corrupt=lambda l: l["obs"].update(sentinel=False),
        driver="iso", trace_module="OptSliceTrace.tla", trace_consts={}, level="model_checking", fixed=None,
        nontrivial=lambda p, l: l["obs"]["parked"] or l["op"]["op"] == "Mix",
        mc=dict(quick=mcs, thorough=mcs), witness=dict(quick=wit, thorough=wit),
        gen=[], extra=iso_extra, post=iso_post, confirm_attempts=3,
        rule={"*": "Schedule lines: connection A (token enrolment / authentication / rejected authentication) is parked at a harness gate (storage Remove of its token, or before / after the server-certificate callback) while connection B runs to completion on a second Accept goroutine, then A resumes; for application option slices with spare capacity 0..8; Mix lines: six concurrent handshakes on four Accept goroutines; each connection's outcome, reported protocols / state and stored record are compared with what it gets alone, and the application's slice is checked for writes beyond its length"},
        assumptions=["interleavings are forced only at the gate points the harness owns (storage calls, the two callbacks); finer interleavings are covered on the OptSlice.tla model and by the race detector on free-running mixes",
                     "'no data race' is decided by the Go race detector, not by TLC"],
    )
