#!/bin/sh
# Build the Go harness against the CURRENT working tree of $VERIF_REPO (default /repo).
# usage: build_harness.sh <outdir> [-race]
set -e
REPO=${VERIF_REPO:-/repo}
OUT=$1; shift
HERE=$(cd "$(dirname "$0")/.." && pwd)
export GOFLAGS=-mod=mod GOPROXY=off GOSUMDB=off GOTOOLCHAIN=local
mkdir -p "$OUT"
SRC="$OUT/src"
rm -rf "$SRC"; mkdir -p "$SRC"
cp -r "$HERE/harness/." "$SRC/"
{
  echo "module verifharness"
  echo
  echo "go 1.21"
  echo
  echo "require github.com/hashicorp/nodeenrollment v0.0.0"
  echo "replace github.com/hashicorp/nodeenrollment => $REPO"
  # same dependency versions as the repository
  awk '/^require \(/{p=1} p{print} /^\)/{p=0}' "$REPO/go.mod"
} > "$SRC/go.mod"
cp "$REPO/go.sum" "$SRC/go.sum"
cd "$SRC"
if [ "$1" = "-race" ]; then
  go build -race -o "$OUT/nev-race" ./cmd/nev
else
  go build -o "$OUT/nev" ./cmd/nev
fi
