"""Shared machinery for the checks: TLC invocation in a scratch copy of spec/,
harness build against the current working tree of $VERIF_REPO, verdicts,
evidence files, known-findings matching."""
import hashlib
import json
import os
import re
import shutil
import subprocess
import sys
import tempfile
import time

VERIF = os.path.dirname(os.path.dirname(os.path.abspath(__file__)))
REPO = os.environ.get("VERIF_REPO", "/repo")
SPEC = os.path.join(VERIF, "spec")
OUT = os.path.join(VERIF, "out")
TLA_CP = "/opt/veriftools/tla/tla2tools.jar:/opt/veriftools/tla/CommunityModules-deps.jar"


class Broken(Exception):
    """The check itself is broken or inconclusive (exit 2)."""


def log(*a):
    print(*a, file=sys.stderr, flush=True)


class Scratch:
    def __init__(self, prefix="vf"):
        self.dir = tempfile.mkdtemp(prefix=prefix + "-")
        self.spec = os.path.join(self.dir, "spec")
        shutil.copytree(SPEC, self.spec)

    def path(self, *p):
        return os.path.join(self.dir, *p)

    def cleanup(self):
        if os.environ.get("VERIF_KEEP"):
            log("scratch kept at", self.dir)
            return
        shutil.rmtree(self.dir, ignore_errors=True)


_meta_n = [0]


def tlc(scr, module, cfg, args=(), timeout=600, workers=None, heap=None, dfs=False):
    """Run TLC in the scratch spec dir; returns stdout text. Raises Broken on timeout."""
    _meta_n[0] += 1
    meta = scr.path("meta%d" % _meta_n[0])
    java = ["java", "-XX:+UseParallelGC"]
    if heap:
        java.append("-Xmx" + heap)
    java.append("-Xss64m")
    if dfs:
        java.append("-Dtlc2.tool.queue.IStateQueue=StateDeque")
    cmd = java + ["-cp", TLA_CP, "tlc2.TLC", "-metadir", meta, "-config", cfg]
    if workers:
        cmd += ["-workers", str(workers)]
    cmd += list(args) + [module]
    t0 = time.time()
    try:
        p = subprocess.run(cmd, cwd=scr.spec, stdout=subprocess.PIPE, stderr=subprocess.STDOUT,
                           timeout=timeout, text=True)
    except subprocess.TimeoutExpired:
        raise Broken("TLC timeout after %ss: %s %s" % (timeout, module, cfg))
    finally:
        shutil.rmtree(meta, ignore_errors=True)
    out = p.stdout
    return out, p.returncode, time.time() - t0


RE_STATS = re.compile(r"(\d+) states generated, (\d+) distinct states found")


def mc_stats(out):
    m = None
    for m in RE_STATS.finditer(out):
        pass
    if not m:
        return None
    return int(m.group(1)), int(m.group(2))


def run_mc(scr, module, cfg, timeout=900, workers=16, args=(), expect_violation=None):
    """Exhaustive TLC run.  Returns dict(states, transitions, wall).  A violated
    invariant / error is a broken check unless expect_violation names the
    invariant that must be violated (anti-vacuity witness)."""
    out, rc, wall = tlc(scr, module, cfg, args=args, timeout=timeout, workers=workers)
    st = mc_stats(out)
    violated = re.search(r"Invariant (\S+) is violated|Temporal properties were violated|Action property (\S+) is violated", out)
    if expect_violation:
        if not violated or (expect_violation not in out):
            raise Broken("anti-vacuity: %s %s did not violate %s\n%s" % (module, cfg, expect_violation, out[-1500:]))
        return dict(states=st[1] if st else 0, transitions=st[0] if st else 0, wall=wall, witness=expect_violation)
    if violated or "Error:" in out or st is None or "Model checking completed" not in out:
        raise Broken("TLC model checking failed: %s %s\n%s" % (module, cfg, out[-3000:]))
    return dict(states=st[1], transitions=st[0], wall=wall)


RE_BEH = re.compile(r'^<<"BEH", "(.*)">>\s*$')


def parse_beh(out):
    res = []
    for line in out.splitlines():
        m = RE_BEH.match(line)
        if m:
            s = m.group(1).replace('\\"', '"').replace('\\\\', '\\')
            res.append(json.loads(s))
    return res


def run_gen(scr, module, cfg, num, depth, seed, timeout=600):
    out, rc, wall = tlc(scr, module, cfg, args=["-simulate", "num=%d" % num, "-depth", str(depth + 4),
                                                "-seed", str(seed)], timeout=timeout, workers=1)
    behs = parse_beh(out)
    if not behs:
        raise Broken("generator produced no behaviours: %s %s\n%s" % (module, cfg, out[-2000:]))
    return behs


RE_TUP_ML = re.compile(r'<<\s*"(VIOL|DRIFT|DONE|PANIC|NOTE)"\s*,(.*?)>>', re.S)
RE_TUP = re.compile(r'^<<"(VIOL|DRIFT|DONE|PANIC|NOTE)",\s*(.*)>>\s*$')


def parse_tuple_fields(s):
    """Parse the printed TLA+ tuple tail into python values (strings, ints, booleans)."""
    vals = []
    for m in re.finditer(r'"((?:[^"\\]|\\.)*)"|(-?\d+)|(TRUE|FALSE)', s):
        if m.group(1) is not None:
            vals.append(m.group(1))
        elif m.group(2) is not None:
            vals.append(int(m.group(2)))
        else:
            vals.append(m.group(3) == "TRUE")
    return vals


def run_trace(scr, module, cfg_text, trace_path, timeout=900, dfs=False, expect_lines=None):
    """Validate a recorded trace.  Returns dict(viol=[...], drift=[...], done=[...])."""
    cfgname = "Trace_%s.cfg" % hashlib.sha1(cfg_text.encode()).hexdigest()[:8]
    with open(os.path.join(scr.spec, cfgname), "w") as f:
        f.write(cfg_text)
    dst = os.path.join(scr.spec, "trace.ndjson")
    if os.path.abspath(trace_path) != dst:
        shutil.copyfile(trace_path, dst)
    out, rc, wall = tlc(scr, module, cfgname, timeout=timeout, workers=1, dfs=dfs)
    res = dict(viol=[], drift=[], done=None, panic=[], note=[], wall=wall, raw=out)
    # TLC pretty-prints long tuples over several lines: match across lines
    for m in RE_TUP_ML.finditer(out):
        f = parse_tuple_fields(m.group(2))
        k = m.group(1)
        if k == "VIOL":
            res["viol"].append(f)
        elif k == "DRIFT":
            res["drift"].append(f)
        elif k == "PANIC":
            res["panic"].append(f)
        elif k == "NOTE":
            res["note"].append(f)
        elif k == "DONE":
            res["done"] = f
    if res["done"] is None or "Error:" in out:
        raise Broken("trace validation did not complete: %s\n%s" % (module, out[-3000:]))
    if expect_lines is not None and res["done"][0] != expect_lines:
        raise Broken("trace validation consumed %s of %s lines" % (res["done"][0], expect_lines))
    return res


_built = {}


def build_harness(scr, race=False):
    key = (scr.dir, race)
    if key in _built:
        return _built[key]
    outdir = scr.path("bin")
    cmd = [os.path.join(VERIF, "run", "build_harness.sh"), outdir] + (["-race"] if race else [])
    env = dict(os.environ, VERIF_REPO=REPO)
    p = subprocess.run(cmd, stdout=subprocess.PIPE, stderr=subprocess.STDOUT, text=True, env=env, timeout=900)
    if p.returncode != 0:
        raise Broken("harness build failed against %s:\n%s" % (REPO, p.stdout[-4000:]))
    path = os.path.join(outdir, "nev-race" if race else "nev")
    _built[key] = path
    return path


def run_driver(scr, family, beh_path, trace_path, seed, tier, race=False, timeout=1800, extra=()):
    exe = build_harness(scr, race=race)
    cmd = [exe, family, "-in", beh_path, "-out", trace_path, "-seed", str(seed), "-tier", tier] + list(extra)
    env = dict(os.environ)
    p = subprocess.run(cmd, stdout=subprocess.PIPE, stderr=subprocess.STDOUT, text=True, timeout=timeout, env=env)
    if p.returncode != 0:
        raise Broken("driver %s failed (rc=%s):\n%s" % (family, p.returncode, p.stdout[-4000:]))
    return p.stdout


def write_ndjson(path, items):
    with open(path, "w") as f:
        for it in items:
            f.write(json.dumps(it, separators=(",", ":")) + "\n")


def read_ndjson(path):
    out = []
    with open(path) as f:
        for line in f:
            line = line.strip()
            if line:
                out.append(json.loads(line))
    return out


# ---------------------------------------------------------------- known findings

def load_known():
    p = os.path.join(VERIF, "known_findings.json")
    if not os.path.exists(p):
        return []
    return json.load(open(p)).get("findings", [])


def match_known(prop, clause, op, known, tr=""):
    """An OPEN finding matches when property and clause agree and every key of
    its `match` object equals the corresponding field of the violating step."""
    for k in known:
        if k.get("status") != "open" or k.get("property") != prop:
            continue
        if k.get("clause") not in (None, clause):
            continue
        if k.get("clause_prefix") and not str(clause).startswith(k["clause_prefix"]):
            continue
        if k.get("trace_prefix") and not str(tr).startswith(k["trace_prefix"]):
            continue
        m = k.get("match", {})
        if all(str(op.get(f)) == str(v) for f, v in m.items()):
            return k
    return None


# ---------------------------------------------------------------- race detector reports

_ACCESS = re.compile(r"^(Write|Read|Previous write|Previous read|Atomic write|Atomic read|Previous atomic write|Previous atomic read) at ")


def library_races(text):
    """Split a Go race-detector log into reports and keep those in which at least one of the two racing accesses is made
    by library code: walking each access stack from the top, the first frame that belongs to the harness or to the
    library decides whose access it is (runtime, sync, protobuf ... frames above it are skipped).  A race between two
    accesses of the harness' own bookkeeping says nothing about the library and is returned separately."""
    lib, own = [], []
    for rep in text.split("=================="):
        if "DATA RACE" not in rep:
            continue
        owners, cur = [], None
        for line in rep.splitlines():
            if _ACCESS.match(line):
                cur = len(owners)
                owners.append(None)
                continue
            if line.startswith("Goroutine "):
                cur = None
                continue
            if cur is not None and owners[cur] is None and line.startswith("  ") and not line.startswith("      "):
                fn = line.strip()
                if fn.startswith("verifharness/"):
                    owners[cur] = "harness"
                elif fn.startswith("github.com/hashicorp/nodeenrollment"):
                    owners[cur] = "library"
        (lib if "library" in owners else own).append(rep.strip()[:3000])
    return lib, own


# ---------------------------------------------------------------- evidence

def write_evidence(prop, tier, seed, level, coverage, wall, violations, assumptions):
    if os.environ.get("VERIF_NOEVIDENCE"):   # trial runs against seeded changes must not overwrite evidence
        return
    os.makedirs(os.path.join(VERIF, "evidence"), exist_ok=True)
    ev = dict(property_id=prop, tier=tier, seed=int(seed), level=level, coverage=coverage,
              assumptions=assumptions, wall_s=round(wall, 2), violations=int(violations))
    with open(os.path.join(VERIF, "evidence", prop + ".json"), "w") as f:
        json.dump(ev, f, indent=1, sort_keys=True)
        f.write("\n")


def replay_path(prop, tag):
    d = os.path.join(OUT, "replays")
    os.makedirs(d, exist_ok=True)
    return os.path.join(d, "%s-%s.json" % (prop, tag))
