"""Handshake family: C02 C14 C16 (spec/Handshake.tla, HandshakeGen.tla, HandshakeTrace.tla; driver `nev hsd`)."""
import os

CONSTS = {"CertKeys": '{"k1","k2","k3"}'}
GEN_CFGS = {}


def G(tag, classes, depth, num, props, nidl=False, base=True, sw=False, regw=False, unix=False, nide=False, lstate=False, life=0, so=False, twoh=False, lskew=False, llog=False):
    name = "HandshakeGen_%s.cfg" % tag
    GEN_CFGS[name] = ("SPECIFICATION Spec\nCONSTANTS\n  CertKeys = {\"k1\",\"k2\",\"k3\"}\n  Depth = %d\n  Classes = {%s}\n  CfgNidl = %s\n  CfgBase = %s\nCHECK_DEADLOCK FALSE\n"
                      % (depth, ",".join('"%s"' % c for c in classes), "TRUE" if nidl else "FALSE", "TRUE" if base else "FALSE"))
    return dict(module="HandshakeGen.tla", cfg=name, depth=depth, num=num, props=props, tag=tag,
                beh_cfg=dict(nidl=nidl, nide=nide, lstate=lstate, lskew=lskew, llog=llog, base=base, sw=sw, regw=regw, unix=unix, lifeSec=life, so=so, twoh=twoh, certKeys=["k1", "k2", "k3"]))


def materialise(scr):
    for name, txt in GEN_CFGS.items():
        with open(os.path.join(scr.spec, name), "w") as f:
            f.write(txt)


GENS = [
    G("c02a", ["Enroll", "Remove", "Reinit", "ConnectRand", "ConnectHonest", "ConnectNear", "ConnectMixed", "ConnectOther", "ConnectReplay"], 10,
      dict(quick=40, thorough=800), ["C02"], nidl=True),
    G("c02b", ["Enroll", "Remove", "ConnectHonest", "ConnectNear", "ConnectMixed", "ConnectOther", "Dial", "ConnectReplay", "ConnectReplay"], 10,
      dict(quick=25, thorough=500), ["C02"], nidl=False, sw=True),
    G("c02c", ["Enroll", "Remove", "ConnectNear", "ConnectOther"], 8,
      dict(quick=10, thorough=200), ["C02"], nidl=False, base=False),
    # a node-id capable store that answers an unknown node id with an empty set rather than not-found
    G("c02d", ["Enroll", "Remove", "ConnectNear", "ConnectNear", "ConnectHonest", "ConnectRand"], 10,
      dict(quick=20, thorough=500), ["C02"], nidl=True, nide=True),
    # real time (8 s roots): adversarial clients and honest dials across waits, promotions and a late operator
    G("c02p", ["Enroll", "ConnectHonest", "ConnectNear", "ConnectNear", "Dial", "WaitOverlap", "RotateWait", "ExpireWait", "Remove"], 9,
      dict(quick=10, thorough=160), ["C02", "C07"], nidl=True, life=8),
    # the store-once back end, which looks records up by node id itself; the file back end with the listener and the operator
    # on two handles of one directory
    G("c02e", ["Enroll", "Remove", "Remove", "ConnectNear", "ConnectHonest", "ConnectReplay"], 10,
      dict(quick=20, thorough=400), ["C02"], nidl=True, so=True),
    G("c07c", ["NewNode", "DialPending", "AuthorizePending", "DialPending", "Enroll", "Dial", "Remove", "ConnectHonest"], 10,
      dict(quick=15, thorough=300), ["C07", "C02"], twoh=True),
    G("c07a", ["NewNode", "DialPending", "AuthorizePending", "DialPending", "Enroll", "Rogue", "Rogue", "Dial", "Remove"], 10,
      dict(quick=30, thorough=500), ["C07"]),
    G("c07b", ["NewNode", "DialPending", "AuthorizePending", "Enroll", "Rogue", "Dial"], 9,
      dict(quick=15, thorough=300), ["C07"], sw=True, unix=True),
    # the listener's own options set the not-after clock skew to zero (an operator tuning request validation)
    G("c07d", ["NewNode", "DialPending", "AuthorizePending", "Enroll", "Dial", "Dial", "ConnectHonest", "Rogue"], 8,
      dict(quick=8, thorough=150), ["C07", "C02"], lskew=True),
    # composition: enrolment, node credential rotation, removal of the old / new record, root replacement, dials with current and previous credentials
    G("sys1", ["Enroll", "RotateNode", "RotateNode", "DialPrev", "Dial", "RemovePrev", "Remove", "Reinit", "ConnectHonest"], 12,
      dict(quick=20, thorough=500), ["C02", "C07"], nidl=True),
    G("sys2", ["Enroll", "RotateNode", "DialPrev", "Dial", "RemovePrev", "Remove", "ConnectNear"], 12,
      dict(quick=12, thorough=300), ["C02", "C07"], nidl=False, sw=True),
    G("c16a", ["Enroll", "Dial", "Dial", "ConnectHonest", "Remove"], 9, dict(quick=40, thorough=600), ["C16"]),
    G("c16b", ["Enroll", "Dial", "ConnectHonest", "ConnectNear"], 9, dict(quick=20, thorough=400), ["C16"], nidl=True, sw=True),
    # the listener's own options carry a state value: no connection may report it as the client's
    G("c16c", ["Enroll", "Dial", "Dial", "ConnectHonest", "ConnectNear"], 9, dict(quick=20, thorough=400), ["C16"], lstate=True),
    # the listener's own options carry a debug-level logger: what connections report is unchanged
    G("c16d", ["Enroll", "Dial", "Dial", "ConnectHonest", "ConnectNear"], 8, dict(quick=12, thorough=300), ["C16", "C02"], llog=True),
    G("c14a", ["Enroll", "Malformed", "Malformed", "Malformed", "Dial"], 12, dict(quick=40, thorough=700), ["C14"]),
    G("c14c", ["Enroll", "Remove", "Reinit", "ConnectNear", "ConnectRand", "ConnectMixed", "Dial"], 12, dict(quick=25, thorough=500), ["C14"], nidl=True),
    # hostile handshakes between the steps of a NEW node's registration (its fetch handshake comes after them)
    G("c14d", ["NewNode", "AuthorizePending", "Malformed", "Malformed", "DialPending", "DialPending", "Enroll"], 10, dict(quick=20, thorough=400), ["C14"]),
    G("c14b", ["Enroll", "Malformed", "Malformed", "Dial", "ConnectOther"], 12, dict(quick=20, thorough=400), ["C14"], regw=True, sw=True),
]


def extra(prop, tier, seed):
    """C02: single-bit mutations of the ALPN-carried request (seeded subset in quick, every bit in thorough);
    the driver re-projects what was actually sent, so the spec judges the mutated request itself"""
    import random
    out = []
    if prop != "C02":
        return out
    rnd = random.Random(seed)
    bits = list(range(0, 2400)) if tier == "thorough" else sorted(rnd.sample(range(0, 2400), 48))
    for nidl in (False, True):
        for ci in range(0, len(bits), 60):
            ops = [dict(op="Enroll", k="k1"), dict(op="Enroll", k="k2")] + [dict(op="ConnectFlip", k="k1", bit=b) for b in bits[ci:ci + 60]]
            out.append(dict(id="flip_%s_%d" % ("n" if nidl else "p", ci), cfg=dict(nidl=nidl, base=True, sw=False, regw=False, unix=False, lifeSec=0, certKeys=["k1", "k2", "k3"]), ops=ops))
    return out


def nontrivial(prop, l):
    op = l["op"]["op"]
    if prop == "C02":
        return op in ("Connect", "Dial")
    if prop == "C14":
        return op in ("Malformed", "Dial", "Connect")
    if prop == "C07":
        return op in ("Rogue", "Dial")
    return l["res"] == "auth"


def family_for(prop):
    return dict(
        driver="hsd", trace_module="HandshakeTrace.tla", trace_consts=CONSTS, level="model_checking",
        fixed="fixed/hs.ndjson", nontrivial=nontrivial, materialise=materialise,
        confirm_attempts=4,   # real sockets and (for the rotation histories) map-iteration order: re-run a failing behaviour up to 4 times
        mc=dict(quick=[("MC_Handshake.tla", "MC_Handshake_q.cfg"), ("MC_Handshake.tla", "MC_Handshake_nonid_q.cfg")],
                thorough=[("MC_Handshake.tla", "MC_Handshake.cfg"), ("MC_Handshake.tla", "MC_Handshake_nonid.cfg")]),
        witness=dict(quick=[("MC_Handshake.tla", "MC_Handshake_w.cfg", "NeverAuth")], thorough=[("MC_Handshake.tla", "MC_Handshake_w.cfg", "NeverAuth")]),
        gen=GENS, extra=extra,
        rule={
            "C02": "TLC-generated histories of enrol / remove / reinitialise-roots interleaved with adversarial clients drawn from the capability product (random, honest, and honest-with-one-capability-changed) executed as real crypto/tls clients against a real InterceptingListener on loopback; non-trivial = Connect/Dial lines; distinct = distinct (client record, result)",
            "C14": "TLC-chosen malformed-input classes x library prefix, concretised with seeded random content (ALPN lists, raw bytes, drops at several handshake stages), each followed later in the behaviour by honest dials; with and without an application registration wrapper",
            "C07": "TLC-generated histories of new-node / dial-before-authorisation / authorise / dial and dials against eight kinds of rogue server (foreign roots, certificate minted for another nonce, nonce omitted, wrong extended key usage, self-signed, not-yet-valid next root, foreign with no / an application ALPN selected), over tcp and unix sockets, with storage wrappers, extra ALPN and client state; fixed real-time histories (8 s root lifetime) in which the server rotates its roots once the node's second chain is valid and the node dials repeatedly",
            "C16": "honest protocol.Dial with TLC-chosen extra-ALPN class and client-state class; the offered list is parsed by the harness from the raw ClientHello bytes and compared with what the connection reports",
        },
        assumptions=[
            "crypto/tls proof of possession and x509 path validation are trusted; only their use is checked",
            "adversarial clients are concretisations of the abstract record; byte-level mutations of the request are covered by the malformed classes, not exhaustively",
        ],
    )
