#!/usr/bin/env python3
"""usage: adopt_seed.py <seed-out-dir> <prop> <variant> <detected_by...>
Copies a confirmed seeded change into /verif/seeded/<prop>-<variant>/ and extends meta.json."""
import json, os, shutil, sys, glob
src, prop, var = sys.argv[1:4]
note = " ".join(sys.argv[4:])
dst = "/verif/seeded/%s-%s" % (prop, var)
os.makedirs(dst, exist_ok=True)
for f in glob.glob(os.path.join(src, "*")):
    shutil.copy(f, dst)
m = json.load(open(os.path.join(dst, "meta.json")))
m["confirmed_by_me"] = ["scratch worktree (run/try_seed.sh verify): patch applies, go build ok, demo fails with patch / passes without, existing suite passes with patch",
                        "check run with VERIF_REPO=<scratch worktree with patch>: " + note]
json.dump(m, open(os.path.join(dst, "meta.json"), "w"), indent=1)
print("adopted", dst)
