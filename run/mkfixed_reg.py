#!/usr/bin/env python3
"""Hand-written regression behaviours for the registry family (one per clause of each property).
Writes fixed/reg.ndjson.  They are judged by the same trace spec as generated behaviours, so they carry no expected values."""
import json, os
HERE = os.path.dirname(os.path.dirname(os.path.abspath(__file__)))
NW = dict(ww="none", wk="none", wn="none")
NR = dict(rby="none", rwith="none", rk="none", rn="none")


def F(k, e, n, life="default", **kw):
    d = dict(op="Fetch", k=k, e=e, n=n, life=life, selfinfo=False); d.update(NW); d.update(NR); d.update(kw); return d


def A(k, e, n, s="none"): return dict(op="Authorize", k=k, e=e, n=n, s=s)
def T(t, s="none"): return dict(op="CreateToken", t=t, s=s)
def R(k): return dict(op="Remove", k=k)
def W(w): return dict(op="SetRegw", w=w)
AGE = dict(op="AgeAll")
def NID(k, nid="N1"): return dict(op="SetNid", k=k, nid=nid)
def PREV(k, frm): return dict(op="SetPrev", k=k, **{"from": frm})
def G(k, nsig, nid="none", order=("k1", "k2", "k3"), hasState=False, ssig="none", skip=False):
    return dict(op="GenCerts", k=k, nid=nid, order=list(order), nsig=nsig, hasState=hasState, ssig=ssig, skip=skip)
def ROT(k, src, which, k2, e2, n2, nid="none", order=("k1", "k2", "k3"), ostate="none", lf=False, iid=False):
    return dict(op="Rotate", k=k, nid=nid, order=list(order), src=src, which=which, k2=k2, e2=e2, n2=n2, ostate=ostate, lf=lf, iid=iid)
def SUB(api, mut, nb=-3, na=30, sknb=0, skna=0, k="k1", e="e1", n="n1", prime=False):
    return dict(op="Submit", api=api, mut=mut, nb=nb, na=na, sknb=sknb, skna=skna, k=k, e=e, n=n, prime=prime)


B = []
def beh(id_, props, ops, sw=False, nidl=False, so=False, nide=False, be="inmem"):
    B.append(dict(id=id_, props=props, cfg=dict(sw=sw, nidl=nidl, so=so, nide=nide, be=be, rmerr=(be == "file"), certKeys=["k1", "k2", "k3"], tokens=["t1", "t2"]), ops=ops))


def PC(k, frm): return dict(op="SetPrevCert", k=k, **{"from": frm})
# a record naming a previous certificate key whose own record is gone: signatures by that key prove nothing
for nidl in (True, False):
    beh("f05_prev_cert_key" + ("n" if nidl else ""), ["C05"], [A("k1", "e1", "n1"), A("k2", "e1", "n2"), NID("k1"), NID("k2"), PC("k2", "k1"), G("k2", "k2", "N1"), G("k1", "k1", "N1"), R("k1"),
                                                         G("k2", "k1", "N1"), G("k2", "k1", "none"), G("k1", "k1", "N1"), G("k2", "k1", "N1", hasState=True, ssig="k1"), G("k2", "k2", "N1")], nidl=nidl)
# a replayed rotation payload while the lookup of the new key's record fails transiently: still refused
for sw in (False, True):
    beh("f10_replay_loadfault" + ("w" if sw else ""), ["C10"], [A("k1", "e1", "n1", "s1"), ROT("k1", "k1", "cur", "k2", "e2", "n2", lf=True), ROT("k1", "k1", "cur", "k2", "e2", "n2"),
                                                                ROT("k1", "k1", "cur", "k2", "e2", "n2", lf=True), ROT("k1", "k1", "cur", "k2", "e2", "n2"), ROT("k2", "k2", "cur", "k3", "e1", "n1", lf=True),
                                                                ROT("k2", "k2", "cur", "k3", "e1", "n1")], sw=sw)
# a rotation payload whose inner bundle carries a foreign id, presented twice: the second use is a replay
beh("f10_replay_inner_id", ["C10"], [A("k1", "e1", "n1", "s1"), ROT("k1", "k1", "cur", "k2", "e2", "n2", iid=True), ROT("k1", "k1", "cur", "k2", "e2", "n2", iid=True), ROT("k1", "k1", "cur", "k2", "e2", "n2"),
                                      ROT("k2", "k2", "cur", "k3", "e1", "n1", iid=True), ROT("k2", "k2", "cur", "k3", "e1", "n1", iid=True)])
# an intermediate that re-wrapped a registration before is removed by the operator and goes on re-wrapping with the keys it holds
for sw in (False, True):
    beh("f01_rewrap_removed" + ("w" if sw else ""), ["C01"], [A("k3", "e1", "n1"), F("k1", "e1", "n1", rby="k3", rwith="k3", rk="k1", rn="n1"), R("k3"), F("k2", "e2", "n2", rby="k3", rwith="k3", rk="k2", rn="n2"),
                                                          F("k2", "e2", "n2", rby="k3", rwith="k3", rk="k2", rn="n2"), A("k3", "e2", "n2"), F("k2", "e2", "n2", rby="k3", rwith="k3", rk="k2", rn="n2")], sw=sw)
# registration info sealed with the right wrapper that lacks the key, the nonce or both
beh("f01_partial_info", ["C01"], [W("W1"), F("k1", "e1", "n1", ww="W1", wk="absent", wn="absent"), F("k2", "e1", "n2", ww="W1", wk="k2", wn="absent"), F("k2", "e1", "n2", ww="W1", wk="absent", wn="n2"),
                                  F("k2", "e1", "n2", ww="W1", wk="k2", wn="n2"), F("k3", "e2", "n1", ww="W1", wk="absent", wn="absent", selfinfo=True)])
# requests whose validity window began long ago (built early or backdated) presenting expired tokens
beh("f06_backdated", ["C06", "C01"], [T("t1"), F("k1", "e1", "t1", "tiny", back=True), F("k1", "e1", "t1", "zero", back=True), T("t2", "s1"), AGE, F("k2", "e1", "t2", "mid", back=True), F("k2", "e1", "t1", "mid", back=True),
                                      F("k2", "e1", "t2", "default", back=True), F("k3", "e1", "t1", "default", back=True)])
# a node record is removed and its key authorised again: a rotation sealed with the key of the REMOVED record proves nothing
for sw in (False, True):
    beh("f10_gone_key" + ("w" if sw else ""), ["C10"], [A("k1", "e1", "n1", "s1"), F("k1", "e1", "n1"), ROT("k1", "k1", "gone", "k2", "e2", "n2"), R("k1"), ROT("k1", "k1", "gone", "k2", "e2", "n2"), A("k1", "e1", "n2", "s2"),
                                                        ROT("k1", "k1", "gone", "k2", "e2", "n2"), F("k1", "e1", "n2"), ROT("k1", "k1", "gone", "k2", "e2", "n2"), ROT("k1", "k1", "cur", "k2", "e2", "n2")], sw=sw)
# a rotation whose inner request carries a damaged activation token (not 32 bytes, not a well-formed token either)
beh("f10_damaged_token", ["C10"], [A("k1", "e1", "n1", "s1"), ROT("k1", "k1", "cur", "k2", "e2", "tg"), ROT("k1", "k1", "cur", "k2", "e2", "tf"), T("t1"), ROT("k1", "k1", "cur", "k2", "e2", "t1"), ROT("k1", "k1", "cur", "k2", "e2", "n2")])
# two handles on one directory; a listing made through one handle before the other handle writes
beh("f01_two_handles", ["C01", "C06", "C10"], [F("k1", "e1", "n1"), F("k2", "e1", "n1"), A("k1", "e1", "n1"), F("k1", "e1", "n1"), T("t1"), F("k1", "e2", "t1"), F("k2", "e1", "t1"), R("k1"), F("k1", "e1", "n1"),
                                                 F("k2", "e1", "n1"), A("k3", "e1", "n1", "s1"), ROT("k3", "k3", "cur", "k1", "e2", "n2"), ROT("k3", "k3", "cur", "k1", "e2", "n2"), ROT("k3", "k3", "cur", "k1", "e2", "n2")], be="file2")
beh("f01_file_remove", ["C01"], [A("k1", "e1", "n1"), F("k1", "e1", "n1"), R("k1"), F("k1", "e1", "n1"), F("k1", "e1", "n1"), A("k1", "e1", "n1"), F("k1", "e1", "n1")], be="file")
for regw in ("none", "W1"):
    beh("f01_storage_wrapper_as_regw_" + regw, ["C01"], [W(regw), F("k1", "e1", "n1", ww="SW", wk="k1", wn="n1"), F("k2", "e2", "n2", ww="SW", wk="k2", wn="n2"), A("k1", "e1", "n1"), F("k1", "e1", "n1", ww="SW", wk="k1", wn="n1")], sw=True)
beh("f06_skip_storage", ["C06", "C01"], [T("t1", "s1"), dict(F("k1", "e1", "t1"), skipst=True), F("k2", "e1", "t1"), F("k1", "e1", "t1"), T("t2"), dict(F("k3", "e2", "t2"), skipst=True), dict(F("k2", "e2", "t2"), skipst=True)])
# the nonce (and its signature) of an accepted request presented again with another state / another state signature / after removal
for nidl in (True, False):
    beh("f05_reused_nonce" + ("n" if nidl else ""), ["C05"], [A("k1", "e1", "n1"), NID("k1"), G("k1", "k1", hasState=True, ssig="k1"), dict(G("k1", "k1", hasState=True, ssig="kx"), reuse=True),
                                                         dict(G("k1", "k1", hasState=True, ssig="none"), reuse=True), dict(G("k1", "k1"), reuse=True), R("k1"), dict(G("k1", "k1"), reuse=True),
                                                         A("k2", "e1", "n2"), NID("k2"), G("k2", "k2", "N1"), dict(G("k2", "k2", "N1", hasState=True, ssig="kx"), reuse=True)], nidl=nidl)
# node ids that differ only in letter case, and a trace-level logger among the caller's options
for so in (False, True):
    beh("f05_nid_case" + ("so" if so else ""), ["C05"], [A("k1", "e1", "n1"), A("k2", "e1", "n2"), NID("k1", "N1"), NID("k2", "n1"), G("k1", "k1", "N1"), G("k2", "k2", "n1"), G("k1", "k2", "N1"), G("k2", "k1", "n1"),
                                                         G("k1", "k2", "N1", hasState=True, ssig="k2"), dict(G("k2", "k1", "N1"), lg="trace"), dict(G("k1", "k1", "N1"), lg="trace"), dict(G("k1", "k2", "n1"), lg="trace")], nidl=True, so=so)
# node ids one of which is a prefix of the other, on the back end that looks records up by node id itself
beh("f05_nid_prefix", ["C05"], [A("k1", "e1", "n1"), A("k2", "e1", "n2"), NID("k1", "N1"), NID("k2", "N10"), G("k1", "k1", "N1"), G("k2", "k2", "N10"), G("k1", "k2", "N1"), G("k2", "k2", "N1"), G("k2", "k1", "N10"),
                                G("k1", "k2", "N1", hasState=True, ssig="k2")], nidl=True, so=True)
beh("f10_inner_window", ["C10", "C03"], [A("k1", "e1", "n1", "s1"), dict(ROT("k1", "k1", "cur", "k2", "e2", "n2"), win="exp2m"), dict(ROT("k1", "k1", "cur", "k2", "e2", "n2"), win="fut2m"),
                                          ROT("k1", "k1", "cur", "k2", "e2", "n2"), dict(ROT("k2", "k2", "cur", "k3", "e1", "n1"), win="fut2m")])
# two server instances on one directory: one registers the node, the rotation goes through the other, the replay through the first
def H(op, h): return dict(op, h=h)
beh("f10_two_instances", ["C10", "C01"], [H(A("k3", "e1", "n1", "s1"), 1), H(F("k3", "e1", "n1"), 1), H(ROT("k3", "k3", "cur", "k1", "e2", "n2"), 0), H(ROT("k3", "k3", "cur", "k1", "e2", "n2"), 1),
                                           H(ROT("k3", "k3", "cur", "k1", "e2", "n2"), 0), H(ROT("k1", "k1", "cur", "k2", "e1", "n1"), 1), H(ROT("k1", "k1", "cur", "k2", "e1", "n1"), 0), H(F("k2", "e1", "n1"), 1),
                                           H(R("k2"), 0), H(F("k2", "e1", "n1"), 1), H(F("k2", "e1", "n1"), 0)], be="file2")
def FR(t, ka, kb, e="e1", be="inmem"): return dict(op="FetchRace", t=t, ka=ka, kb=kb, e=e, be=be)
# overlapping fetches presenting the same token: known finding KF-C06-1 on the in-memory back end; the file back end refuses the loser
beh("kf_c06_race", ["C06", "C01"], [T("t1", "s1"), FR("t1", "k1", "k2"), F("k3", "e1", "t1"), T("t2"), FR("t2", "k3", "k1"), FR("t2", "k3", "k2")])
beh("kf_c06_racew", ["C06"], [T("t1"), FR("t1", "k2", "k1", "e2")], sw=True)
for sw in (False, True):
    beh("f06_race_file" + ("w" if sw else ""), ["C06", "C01"], [T("t1", "s1"), FR("t1", "k1", "k2", be="file"), F("k3", "e1", "t1"), F("k1", "e1", "t1"), T("t2"), F("k3", "e2", "t2", "zero"), F("k3", "e2", "t2", "neg"),
                                                          FR("t2", "k3", "k1", "e2", be="file"), FR("t2", "k3", "k2", be="file")], sw=sw, be="file")
beh("f06_lifetimes", ["C06", "C01"], [T("t1"), F("k1", "e1", "t1", "zero"), F("k1", "e1", "t1", "neg"), F("k1", "e1", "t1", "tiny"), F("k1", "e1", "t1"), T("t2", "s1"), F("k2", "e1", "t2", "neg"), F("k2", "e1", "t2", "mid")])
for sw in (False, True):
    x = "w" if sw else ""
    beh("f01_altered" + x, ["C01"], [A("k1", "e1", "n1", "s1"), F("k1", "e2", "n1"), F("k1", "e1", "n2"), F("k2", "e1", "n1"), F("k1", "e1", "n1"),
                                     R("k1"), F("k1", "e1", "n1"), A("k1", "e2", "n2"), F("k1", "e1", "n1"), F("k1", "e2", "n2")], sw=sw)
    beh("f01_wrapped" + x, ["C01"], [F("k1", "e1", "n1", ww="W1", wk="k1", wn="n1"), W("W1"), F("k1", "e1", "n1", ww="W1", wk="k2", wn="n1"),
                                     F("k1", "e1", "n1", ww="W1", wk="k1", wn="n2"), F("k1", "e1", "n1", ww="W2", wk="k1", wn="n1"),
                                     F("k1", "e1", "n1", ww="W1", wk="k1", wn="n1"), F("k1", "e2", "n2", ww="W1", wk="k1", wn="n2"),
                                     F("k1", "e1", "n1"), F("k1", "e2", "n2"), W("none"), F("k2", "e1", "n1", ww="W1", wk="k2", wn="n1")], sw=sw)
    beh("f01_rewrapped" + x, ["C01"], [A("k1", "e1", "n1"), F("k2", "e1", "n2", rby="k1", rwith="rand", rk="k2", rn="n2"),
                                       F("k2", "e1", "n2", rby="k2", rwith="k1", rk="k2", rn="n2"), F("k2", "e1", "n2", rby="k1", rwith="k1", rk="k1", rn="n2"),
                                       F("k2", "e1", "n2", rby="k1", rwith="k1", rk="k2", rn="n1"), F("k2", "e1", "n2", rby="k1", rwith="k1", rk="k2", rn="n2"),
                                       F("k3", "e2", "n1", rby="k2", rwith="k2", rk="k3", rn="n1"), R("k1"),
                                       F("k1", "e1", "n1", rby="k1", rwith="k1", rk="k1", rn="n1"),
                                       F("k1", "e1", "n1", ww="W1", wk="k1", wn="n1", rby="k2", rwith="k2", rk="k1", rn="n1")], sw=sw)
    beh("f01_token" + x, ["C01", "C06"], [F("k1", "e1", "t1"), T("t1", "s1"), F("k1", "e1", "tf"), F("k1", "e1", "tg"), F("k1", "e1", "t1", "tiny"),
                                          F("k1", "e1", "t1"), F("k2", "e1", "t1"), F("k1", "e1", "t1"), F("k1", "e2", "t1"), A("k2", "e1", "t1")], sw=sw)
    beh("f01_mixed" + x, ["C01", "C06"], [T("t1"), A("k1", "e1", "n1"), F("k1", "e2", "t1"), F("k2", "e2", "t1"), T("t2", "s1"), W("W1"),
                                          F("k2", "e1", "t2", ww="W1", wk="k2", wn="t2"), F("k3", "e1", "t2"), F("k2", "e1", "t2"), F("k2", "e2", "t2")], sw=sw)
    beh("f06_age" + x, ["C06"], [T("t1", "s1"), AGE, T("t2"), F("k1", "e1", "t1", "mid"), dict(op="TamperTime", t="t1"), F("k1", "e1", "t1", "mid"),
                                 F("k1", "e1", "t2", "mid"), F("k2", "e1", "t2", "mid"), F("k2", "e1", "t1", "tiny"), F("k2", "e1", "t1")], sw=sw)
    beh("f06_transplant" + x, ["C06"], [T("t1"), AGE, T("t2"), dict(op="Transplant", t="t1", t2="t2"), F("k1", "e1", "t1", "mid"),
                                        F("k1", "e1", "t1"), F("k2", "e1", "t2", "mid"), F("k3", "e1", "t2")], sw=sw)
    beh("f06_existing" + x, ["C06", "C01"], [A("k1", "e1", "n1"), T("t1"), F("k1", "e1", "t1"), F("k2", "e1", "t1"), T("t2"), F("k1", "e2", "t2"),
                                             R("k1"), F("k1", "e2", "t2")], sw=sw)

beh("f03_muts", ["C03"], [SUB(api, m) for m in ["flipBundle", "flipSig", "truncBundle", "truncSig", "signedByOther", "noBundle", "noSig", "noCertKey",
                                                 "badCertType", "noNonce", "noEncKey", "badEncType", "noiseBundle", "noiseSig"] for api in ("authorize", "fetch")])
beh("f03_primed", ["C03"], [SUB(api, m, prime=True) for m in ["flipSig", "truncSig", "noiseSig", "noSig", "flipBundle", "signedByOther"] for api in ("authorize", "fetch")])
beh("f03_window", ["C03"], [SUB("authorize", "none", nb=2, na=30), SUB("authorize", "none", nb=40, na=2000), SUB("fetch", "none", nb=-2000, na=-40),
                            SUB("authorize", "none", nb=-30, na=-2), SUB("authorize", "none", nb=2, na=30, sknb=-5), SUB("fetch", "none", nb=-30, na=-2, skna=5),
                            SUB("authorize", "none", nb=-30, na=-2, skna=60, k="k2"), SUB("authorize", "none", nb=40, na=2000, sknb=-60, k="k3"),
                            SUB("fetch", "none", nb=-30, na=-40 + 2040, sknb=0), SUB("authorize", "none", nb=-3, na=3, e="e2", n="n2"),
                            dict(op="CreateRequest", k="fresh", e="fresh", n="fresh", s="none")])
# invalid requests in the relayed shape (info re-wrapped by a registered intermediate): still refused, nothing written
beh("f03_relayed", ["C03"], [A("k3", "e1", "n1"), dict(SUB("fetch", "flipSig"), relay=True), dict(SUB("fetch", "flipBundle"), relay=True), dict(SUB("fetch", "none", nb=-2000, na=-40), relay=True),
                             dict(SUB("fetch", "none", nb=40, na=2000), relay=True), dict(SUB("fetch", "signedByOther", k="k2", e="e2", n="n2"), relay=True), dict(SUB("fetch", "noiseBundle"), relay=True),
                             dict(SUB("fetch", "truncSig"), relay=True)])
beh("f03_during_valid_call", ["C03"], [dict(SUB("authorize", "flipSig"), during=True), dict(SUB("authorize", "flipBundle", k="k2", e="e2", n="n2"), during=True),
                                       dict(SUB("authorize", "none", nb=-2000, na=-40), during=True), dict(SUB("authorize", "signedByOther"), during=True), dict(SUB("authorize", "truncSig"), during=True)])
beh("f03_after_auth", ["C03"], [A("k1", "e1", "n1"), SUB("fetch", "flipSig"), SUB("fetch", "none", nb=-2000, na=-40), SUB("fetch", "none", nb=40, na=2000),
                                SUB("fetch", "signedByOther"), SUB("fetch", "none")])

for nidl in (True, False):
    x = "" if nidl else "_nonid"
    beh("f05_order" + x, ["C05"], [A("k1", "e1", "n1"), A("k2", "e1", "n1"), NID("k1"), NID("k2"),
                                   G("k3", "kx", nid="N1"), G("k3", "k3", nid="N1"), G("k1", "k1", nid="N1", order=("k2", "k1", "k3")),
                                   G("k1", "k2", nid="N1", order=("k1", "k2", "k3")), G("k1", "k1", nid="N1", hasState=True, ssig="k2"),
                                   G("k1", "k1", nid="N1", hasState=True, ssig="k1", order=("k2", "k1", "k3")), G("k1", "none", nid="N1"),
                                   G("k3", "kx", nid="N1", hasState=True, ssig="kx"), G("k1", "k2"), G("k1", "k1"), G("k3", "kx", skip=True, hasState=True),
                                   R("k1"), G("k1", "k1", nid="N1"), G("k1", "k1"), G("k2", "k2", nid="N2")], nidl=nidl)
    beh("f10_chain" + x, ["C10"], [A("k1", "e1", "n1", "s1"), ROT("k1", "rand", "cur", "k2", "e2", "n2"), ROT("k1", "k1", "cur", "k2", "e2", "t1"),
                                   ROT("k1", "k1", "cur", "k2", "e2", "n2"), ROT("k1", "k1", "cur", "k2", "e2", "n2"), PREV("k2", "k1"),
                                   ROT("k2", "k2", "prev", "k3", "e1", "n1"), ROT("k2", "k2", "cur", "k3", "e1", "n1"), ROT("k3", "k1", "cur", "k1", "e1", "n1"),
                                   R("k3"), ROT("k2", "k2", "cur", "k3", "e2", "n2")], nidl=nidl)
    beh("f10_nid" + x, ["C10"], [A("k1", "e1", "n1", "s1"), A("k2", "e2", "n2"), NID("k1"), NID("k2"),
                                 ROT("k3", "k2", "cur", "k3", "e1", "n1", nid="N1", order=("k1", "k2", "k3")),
                                 R("k3"), ROT("k1", "k2", "cur", "k3", "e1", "n1", nid="N1", order=("k2", "k1", "k3")),
                                 R("k3"), ROT("k1", "k2", "cur", "k3", "e1", "n1"), ROT("k2", "k1", "cur", "k3", "e1", "n1", nid="N2"),
                                 ROT("k1", "k1", "cur", "k2", "e1", "n1")], nidl=nidl)

beh("f05_keykind", ["C05"], [A("k1", "e1", "n1"), A("k2", "e1", "n1"), NID("k1"), NID("k2"), dict(op="SetKeyKind", k="k1"),
                             G("k1", "kx"), G("k1", "k1"), G("k3", "kx", nid="N1"), G("k3", "kx", nid="N1", hasState=True, ssig="kx"),
                             G("k2", "k2", nid="N1"), G("k1", "k2", nid="N1", order=("k1", "k2", "k3"))], nidl=True)
beh("f10_strip", ["C10"], [A("k1", "e1", "n1", "s1"), A("k2", "e2", "n2", "s2"), NID("k1"), NID("k2"), dict(op="StripSrv", k="k1"),
                           ROT("k1", "k2", "cur", "k3", "e1", "n1", nid="N1", order=("k1", "k2", "k3")), R("k3"),
                           ROT("k2", "k2", "cur", "k3", "e1", "n1", nid="N1", order=("k2", "k1", "k3")), R("k3"),
                           ROT("k1", "k1", "cur", "k3", "e1", "n1")], nidl=True)
beh("f10_ostate", ["C10"], [A("k1", "e1", "n1", "s1"), ROT("k1", "k1", "cur", "k2", "e2", "n2", ostate="s2"), A("k3", "e1", "n1"),
                            R("k2"), ROT("k3", "k3", "cur", "k2", "e2", "n2", ostate="s1")])

# store-once back end: a second wrapped-flow fetch for the same certificate key with another encryption key
for sw in (False, True):
    beh("f01_storeonce" + ("w" if sw else ""), ["C01"], [W("W1"), F("k1", "e1", "n1", ww="W1", wk="k1", wn="n1"), F("k1", "e2", "n1", ww="W1", wk="k1", wn="n1"),
                                                     F("k1", "e1", "n2", ww="W1", wk="k1", wn="n2"), F("k1", "e1", "n1", ww="W1", wk="k1", wn="n1"), F("k1", "e1", "n1"),
                                                     A("k2", "e1", "n1"), F("k3", "e2", "n2", rby="k2", rwith="k2", rk="k3", rn="n2"),
                                                     F("k3", "e1", "n2", rby="k2", rwith="k2", rk="k3", rn="n2")], sw=sw, so=True)
# self-asserted registration info inside the signed bundle
beh("f01_selfinfo", ["C01"], [F("k1", "e1", "n1", selfinfo=True), F("k1", "e1", "n1", selfinfo=True, ww="W2", wk="k1", wn="n1"), W("W1"),
                             F("k2", "e1", "n1", selfinfo=True, ww="W2", wk="k2", wn="n1"), F("k2", "e1", "n2", selfinfo=True, rby="k1", rwith="rand", rk="k2", rn="n2"),
                             F("k2", "e1", "n1", selfinfo=True, ww="W1", wk="k2", wn="n1"), A("k3", "e1", "n1"), F("k3", "e1", "n1", selfinfo=True), F("k3", "e2", "n1", selfinfo=True)])
for sw in (False, True):
    beh("f06_whole" + ("w" if sw else ""), ["C06"], [T("t1", "s1"), AGE, T("t2"), dict(op="TransplantWhole", t="t1", t2="t2"), F("k1", "e1", "t1", "mid"), F("k1", "e1", "t1"),
                                                 F("k2", "e1", "t2", "mid"), F("k3", "e1", "t2")], sw=sw)
def CR(flow="plain", again=False): return dict(op="CreateRequest", k="fresh", e="fresh", n="fresh", s="none", flow=flow, again=again)
# requests a node creates, also a second one from the same credentials and in the wrapper (KMS) flow: each valid from ITS creation for the documented lifetime
beh("f03_created", ["C03"], [CR(), CR("plain", True), CR("wrap"), CR("wrap", True), CR("wrap", True)])
beh("f03_named_prev", ["C03"], [SUB(api, "signedByNamedPrev", prime=p) for api in ("authorize", "fetch") for p in (False, True)] + [A("k1", "e1", "n1"), SUB("fetch", "signedByNamedPrev", prime=True)])
# the store-once back end looks records up by node id ITSELF: removed records must be gone from that lookup too
beh("f05_storeonce_native_nid", ["C05"], [A("k1", "e1", "n1"), A("k2", "e1", "n2"), NID("k1"), NID("k2"), G("k1", "k1", "N1"), R("k1"), G("k1", "k1", "N1"), G("k2", "k1", "N1"), G("k2", "k2", "N1"), R("k2"), G("k2", "k2", "N1"),
                                          G("kx", "k2", "N1", hasState=True, ssig="k2")], nidl=True, so=True)
beh("f03_structured", ["C03"], [SUB(api, m, prime=p) for m in ["appendField22", "appendUnknownField", "noNotAfter", "noCertType", "noEncType"] for api in ("authorize", "fetch") for p in (False, True)])
beh("f05_kx_request", ["C05"], [A("k1", "e1", "n1"), A("k2", "e1", "n1"), NID("k1"), NID("k2"), G("kx", "k1", nid="N1", hasState=True, ssig="kx"), G("kx", "k1", nid="N1"),
                                G("kx", "kx", nid="N1"), G("kx", "kx"), G("k3", "k3", nid="N1"), G("kx", "k2", nid="N1", hasState=True, ssig="k2", order=("k2", "k1", "k3")),
                                G("k1", "k1", nid="N2"), G("kx", "kx", nid="N2")], nidl=True)
beh("f05_empty_lookup", ["C05"], [A("k1", "e1", "n1"), NID("k1"), G("k1", "k1", nid="N2"), G("k1", "kx", nid="N2"), G("kx", "kx", nid="N2", hasState=True, ssig="kx"),
                                  G("k1", "k1", nid="N1")], nidl=True, nide=True)

os.makedirs(os.path.join(HERE, "fixed"), exist_ok=True)
with open(os.path.join(HERE, "fixed", "reg.ndjson"), "w") as f:
    for b in B:
        f.write(json.dumps(b, separators=(",", ":")) + "\n")
print(len(B), "behaviours")
