"""Roots family: C08 C09 (spec/Roots.tla, MC_Roots.tla, RootsGen.tla, RootsTrace.tla; driver `nev roots`)."""
import os

UNITS = [2000, 60000, 3600000, 86400000, 30 * 86400000, 456 * 86400000]   # coarse grid unit: 2 s ... 456 days (L=8 -> 16 s ... 10 years)

CFGS = {}


def mc_cfg(name, L, sknb, skna, gridhalf, R, nextra, T, mode, invs):
    CFGS[name] = ("SPECIFICATION Spec\nCONSTANTS\n  L = %d\n  SKNBabs = %d\n  SKNA = %d\n  GridHalf = %d\n  R = %d\n  NExtra = %d\n  T = %d\n  Mode = \"%s\"\n"
                  "INVARIANTS %s\nCHECK_DEADLOCK FALSE\n" % (L, -sknb, skna, gridhalf, R, nextra, T, mode, " ".join(invs)))
    return ("MC_Roots.tla", name)


def gen_cfg(name, L, sknb, skna, gridhalf, R, T, gmode, depth):
    mode = "table" if gmode == "table" else "history"
    CFGS[name] = ("SPECIFICATION GSpec\nCONSTANTS\n  L = %d\n  SKNBabs = %d\n  SKNA = %d\n  GridHalf = %d\n  R = %d\n  NExtra = 0\n  T = %d\n  Mode = \"%s\"\n"
                  "  Depth = %d\n  GMode = \"%s\"\nCHECK_DEADLOCK FALSE\n" % (L, -sknb, skna, gridhalf, R, T, mode, depth, gmode))
    return name


def node_bound(L, sknb, skna, R):
    return ((L + skna - sknb) - R) // 2 + sknb


def G(tag, L, sknb, skna, R, gmode, depth, num, props, gridhalf=0, sw=False):
    name = gen_cfg("RootsGen_%s.cfg" % tag, L, sknb, skna, gridhalf, max(R, 1), 100000, gmode, depth)
    N = node_bound(L, sknb, skna, R) if gmode == "cadence" else 0

    def cfg_fn(i, seed):
        return dict(L=L, sknb=sknb, skna=skna, R=(R if gmode == "cadence" else 0), N=N, unitMs=UNITS[(i + seed) % len(UNITS)], sw=(sw and i % 2 == 0))
    return dict(module="RootsGen.tla", cfg=name, depth=depth, num=num, props=props, tag=tag, beh_cfg_fn=cfg_fn, beh_cfg=None)


ALL_INV = ["InvC08", "InvDecide", "InvNoReset", "InvNodeTrust", "InvSuccessor"]
MC = {
    "C08": dict(
        quick=[mc_cfg("MC_Roots_table_q.cfg", 4, -1, 1, 3, 1, 0, 0, "table", ["InvC08", "InvDecide", "InvFailed"]),
               mc_cfg("MC_Roots_hist_q.cfg", 8, -1, 1, 0, 4, 0, 40, "history", ["InvC08", "InvDecide"])],
        thorough=[mc_cfg("MC_Roots_table_t1.cfg", 4, -1, 1, 5, 1, 0, 0, "table", ["InvC08", "InvDecide", "InvFailed"]),
                  mc_cfg("MC_Roots_table_t2.cfg", 6, 0, 0, 4, 1, 0, 0, "table", ["InvC08", "InvDecide", "InvFailed"]),
                  mc_cfg("MC_Roots_table_t3.cfg", 3, -2, 3, 4, 1, 0, 0, "table", ["InvC08", "InvDecide", "InvFailed"]),
                  mc_cfg("MC_Roots_hist_t1.cfg", 12, -1, 2, 0, 3, 0, 80, "history", ["InvC08", "InvDecide"]),
                  mc_cfg("MC_Roots_hist_t2.cfg", 9, 0, 0, 0, 8, 0, 80, "history", ["InvC08", "InvDecide"])]),
    "C09": dict(
        quick=[mc_cfg("MC_Roots_c09_q1.cfg", 8, -1, 1, 0, 4, 0, 40, "history", ALL_INV),
               mc_cfg("MC_Roots_c09_q2.cfg", 8, 0, 0, 0, 2, 0, 40, "history", ALL_INV),
               mc_cfg("MC_Roots_c09_q3.cfg", 8, 0, 0, 0, 7, 0, 40, "history", ALL_INV),
               mc_cfg("MC_Roots_c09_q4.cfg", 8, -1, 1, 0, 8, 0, 40, "history", ALL_INV)],
        thorough=[mc_cfg("MC_Roots_c09_t%d.cfg" % i, L, nb, na, 0, R, 0, 8 * L, "history", ALL_INV)
                  for i, (L, nb, na, R) in enumerate([(8, 0, 0, 1), (8, 0, 0, 2), (8, 0, 0, 4), (8, 0, 0, 6), (8, -1, 1, 4), (8, -2, 0, 2),
                                                      (12, -1, 2, 3), (9, 0, 0, 2), (12, -2, 2, 7), (16, -1, 1, 5), (8, 0, 0, 7), (8, -1, 1, 8), (12, -1, 2, 13)])]),
}
WITNESS = {
    "C08": dict(quick=[("MC_Roots.tla", mc_cfg("MC_Roots_w_promote.cfg", 8, -1, 1, 0, 4, 0, 40, "history", ["NeverPromotes"])[1], "NeverPromotes")],
                thorough=[("MC_Roots.tla", "MC_Roots_w_promote.cfg", "NeverPromotes")]),
    # the stated node cadence bound is tight: bound + 1 must break trust continuity (span - R even)
    "C09": dict(quick=[("MC_Roots.tla", mc_cfg("MC_Roots_w_bound.cfg", 8, -1, 1, 0, 4, 1, 40, "history", ["InvNodeTrust"])[1], "InvNodeTrust"),
                       # known finding KF-C09-1 at design level: with a negative not-before skew, rotation intervals in
                       # [L+skNA, span) reset trust although they are shorter than the validity span
                       ("MC_Roots.tla", mc_cfg("MC_Roots_w_skewgap.cfg", 8, -1, 1, 0, 9, 0, 40, "history", ["InvNoReset"])[1], "InvNoReset")],
                thorough=[("MC_Roots.tla", "MC_Roots_w_bound.cfg", "InvNodeTrust"),
                          ("MC_Roots.tla", mc_cfg("MC_Roots_w_bound2.cfg", 8, 0, 0, 0, 2, 1, 40, "history", ["InvNodeTrust"])[1], "InvNodeTrust")]),
}

GENS = [
    G("tab1", 8, -1, 1, 1, "table", 5, dict(quick=200, thorough=20000), ["C08"], gridhalf=10, sw=True),
    G("tab2", 4, 0, 0, 1, "table", 4, dict(quick=100, thorough=10000), ["C08"], gridhalf=6),
    G("tab3", 3, -2, 3, 1, "table", 4, dict(quick=60, thorough=7500), ["C08"], gridhalf=5),
    G("free1", 8, -1, 1, 1, "free", 14, dict(quick=100, thorough=10000), ["C08"], sw=True),
    G("free2", 5, 0, 2, 1, "free", 14, dict(quick=60, thorough=7500), ["C08"]),
    # storage faults at the Remove / Load / Store of the roots record, and calls that see another certificate lifetime
    G("flt1", 8, -1, 1, 1, "faulty", 14, dict(quick=80, thorough=7500), ["C08"], sw=True),
    G("flt2", 6, 0, 0, 1, "faulty", 12, dict(quick=40, thorough=5000), ["C08"]),
    G("cad1", 8, -1, 1, 4, "cadence", 60, dict(quick=60, thorough=4000), ["C09", "C08"]),
    G("cad2", 8, 0, 0, 2, "cadence", 60, dict(quick=40, thorough=3000), ["C09"]),
    G("cad3", 12, -1, 2, 3, "cadence", 80, dict(quick=30, thorough=3000), ["C09"]),
    G("cad4", 9, 0, 0, 6, "cadence", 60, dict(quick=30, thorough=3000), ["C09"]),
    # server cadence close to the validity span (late promotions); the node bound degenerates to ~0 there
    G("cad5", 8, 0, 0, 7, "cadence", 60, dict(quick=40, thorough=3000), ["C09"]),
    G("cad7", 16, 0, 0, 14, "cadence", 50, dict(quick=60, thorough=4000), ["C09"]),
    G("cad8", 16, -2, 2, 17, "cadence", 50, dict(quick=40, thorough=3000), ["C09"]),
    G("cad6", 8, -1, 1, 8, "cadence", 60, dict(quick=40, thorough=3000), ["C09"]),
]


def materialise(scr):
    for name, txt in CFGS.items():
        with open(os.path.join(scr.spec, name), "w") as f:
            f.write(txt)


def nontrivial(prop, l):
    if prop == "C08":
        return l["op"]["op"] == "Rotate" and l["res"] == "ok"
    return l["op"]["op"] in ("Rotate", "Enroll") and l["p"]["R"] > 0


def sig(prop, l):
    return None


def corrupt(l):
    """binding self-test: shift the reported current root (rotations) or de-trust the node's chains (enrolments)"""
    if l["op"]["op"] == "Rotate":
        l["post"]["cur"]["nb"] += 5000
        l["ret"]["cur"]["nb"] += 5000
        l["post"]["cur"]["id"] += 50
        l["ret"]["cur"]["id"] += 50
    else:
        for c in l["chains"]:
            c["issuer"] = 99


def family_for(prop):
    return dict(
        corrupt=corrupt,
        driver="roots",
        trace_module="RootsTrace.tla",
        trace_consts={},
        level="model_checking",
        fixed="fixed/roots.ndjson",
        nontrivial=nontrivial,
        materialise=materialise,
        mc=MC[prop],
        witness=WITNESS[prop],
        gen=GENS,
        rule={
            "C08": "TLC-generated behaviours: (table) a random stored record of the order-type model injected into real storage then rotated with/without reinitialisation, (free) arbitrary tick/rotate sequences from empty storage, over six time magnitudes (16 s to 10 y lifetimes) via virtual time; non-trivial = successful Rotate lines; distinct = distinct (operation, result, pre-record order type) up to the recorded values",
            "C09": "TLC-generated schedules of tick / rotate / node enrolment satisfying both cadence bounds for four (L, skews, R) parameter sets, replayed on the real rotation and authorisation code under virtual time over six magnitudes; non-trivial = Rotate/Enroll lines of cadence-constrained traces",
        },
        assumptions=[
            "virtual time: rotation decides only from stored proto timestamps and time.Now(); stored timestamps are shifted instead of the clock (DER windows checked against proto windows at mint time)",
            "instants compared with a tolerance equal to the measured duration of the call + 2 fine units; steps slower than 200 fine units are not judged",
            "TLS verification is not executed under virtual time (covered by the handshake family with second-scale lifetimes)",
        ],
    )
